#!/bin/bash
# Determinism self-check (not a registered check): for many VERIF_SEED values, every claimed
# property's plan + event log hash must be identical across repeated processes, worker counts
# 1/4/16, both build profiles, and (for a few seeds) native vs Miri.
# usage: selfcheck_determinism.sh [nseeds=40] [runs=2000]
cd "$(dirname "$0")"; ROOT=$(pwd); ./check build >/dev/null || exit 2
nseeds="${1:-40}"; runs="${2:-2000}"; bad=0; n=0
props=$(python3 -c "import json;[print(c['property_id']) for c in json.load(open('MANIFEST.json'))['checks']]")
export KSIM_ROOT=/tmp/ksim-determinism-$$; mkdir -p $KSIM_ROOT/target; cp known_findings.json $KSIM_ROOT/ 2>/dev/null
for i in $(seq 1 $nseeds); do
  seed=$(( (i * 2654435761 + 12345) % 1000000007 ))
  for p in $props; do
    ref=""
    for cfg in "checked 16" "checked 1" "checked 4" "fast 16" "checked 16"; do
      set -- $cfg
      h=$(VERIF_SEED=$seed KSIM_TRACE=1 KSIM_NO_MIRI=1 KSIM_RUNS=$runs KSIM_WORKERS=$2 ./target/$1/ksim check $p quick | grep TRACE-HASH)
      n=$((n+1))
      if [ -z "$ref" ]; then ref="$h"; elif [ "$h" != "$ref" ] || [ -z "$h" ]; then echo "DIVERGENCE seed=$seed prop=$p cfg='$cfg': $h vs $ref"; bad=$((bad+1)); fi
    done
  done
done
echo "native: $n traced batches compared, $bad divergences"
# native vs Miri on a few seeds
for w in byvalue parser splits; do
  for seed in 7 20261001; do
    a=$(./target/checked/ksim miri-batch $w C01 $seed 0 6 --trace | grep ^TRACE)
    b=$(cd sim && CARGO_TARGET_DIR=$ROOT/target/miri MIRIFLAGS="-Zmiri-ignore-leaks" cargo +nightly miri run --offline -q -- miri-batch $w C01 $seed 0 6 --trace 2>/dev/null | grep ^TRACE)
    if [ "$a" != "$b" ] || [ -z "$a" ]; then echo "DIVERGENCE native-vs-miri world=$w seed=$seed: $a vs $b"; bad=$((bad+1)); else echo "native==miri world=$w seed=$seed $a"; fi
  done
done
rm -rf $KSIM_ROOT
[ $bad = 0 ] && echo "DETERMINISTIC" || { echo "NOT DETERMINISTIC ($bad)"; exit 1; }
