#!/usr/bin/env python3
"""Generates /verif/MANIFEST.json (kept as a script so that the manifest stays consistent with
what is actually built). Run: python3 tools_manifest.py && python3-vt tools_validate.py"""
import json

NA = {
 "C02": "pure function of (slice, indices): every getter/clamping/_mut/array-conversion function is one call compared with slice.get(..); no state survives the call, nothing to schedule or fault (DESIGN.md 7)",
 "C03": "pure function of (str, indices): single calls (get_*, str_from/up_to/range, split_at, is_char_boundary) vs str::get; the 'panics exactly when' clause is still a function of the arguments alone (DESIGN.md 7)",
 "C04": "pure function of (haystack, needle): find/rfind/contains/*_skip/*_keep/split_once are single calls; deciding it is enumeration of needle x haystack shapes, not simulation. (Its defect D2 was seen indirectly through C06/C14 split histories and repaired in b7d17ad.) (DESIGN.md 7)",
 "C05": "pure function of (input, pattern): starts_with/ends_with/strip_*/trim_* are single calls compared with std (DESIGN.md 7)",
 "C10": "the iterator DSL is a macro_rules rewriting of a program (method chain) fixed at compile time; its evaluation on an input is a pure function; the quantifier is over generated programs x inputs with no execution-time schedule or fault (DESIGN.md 7)",
 "C12": "whole-string and prefix integer/bool parsing are pure functions of the string; the Parser-mediated bookkeeping of prefix parsing is covered by C13/C14 (DESIGN.md 7)",
 "C16": "eq_*/cmp_*/const_eq!/const_cmp! are pure functions of a pair of values; the order laws are statements over pairs and triples of inputs (DESIGN.md 7)",
 "C17": "the observable is rustc's accept/reject of generated programs; no konst code runs, so there is no execution to simulate (DESIGN.md 7)",
 "C18": "parser_method! literal alternatives are decoded by a proc macro at compile time; agreement with rustc's decoding is a property of generated programs. (Run-time effect of 8 fixed forms on Parser offsets is exercised inside C13.) (DESIGN.md 7)",
 "C19": "option/result/try/rebind/min/max macros expand to a match on one value: a pure function of the value; rebind arities are compile-time program shapes (DESIGN.md 7)",
 "C20": "str_concat!/str_join!/from_iter!/slice_concat! accept only constants and are evaluated entirely by rustc; the CStr functions are pure functions of one byte slice (DESIGN.md 7)",
}
NOT_YET = "claimed in DESIGN.md but its simulated check is not built yet in this commit; listed here only so that the manifest never claims a check that does not exist"

TECH = "deterministic simulation: seeded operation-history search over forked handles with per-step reference-model comparison, minimised replay"

CHECKS = {
 "C13": dict(cat="exploration", ref="DESIGN.md 6 (C13)",
  text="Seeded simulation of Parser operation histories (all public Parser methods, Copy-forks, 8 fixed parser_method! forms, base offsets up to u32::MAX-len) on real konst code; after every step the self-consistency invariants of C13 (remainder == text[start-base..end-base] by content and address, offsets on char boundaries, direction, error offset/direction rule) are checked. Plus a completely enumerated sweep (every operation kind x 9 patterns x 12 small texts, alone and after one positioning step). Sampling, not proof: a clean batch is evidence that the invariant survives 4e6 (quick) / 4e8 (thorough) histories.",
  note="Trusted: rustc/std (str slicing, is_char_boundary), the hand-written PRNG/planner, the offset arithmetic of the oracle. Assumes base + text.len() <= u32::MAX. Text <= 16 (28) chars (1 run in 24: up to 300) over a token alphabet with 1-4-byte chars at every UTF-8 lead-byte class boundary and integer MIN/MAX literals; bases up to u32::MAX-len; <= 48 (192) steps; <= 3 forked handles. parse_direction() after a successful operation and error kinds other than SplitExhausted are not compared (not part of the statements).",
  tech="deterministic simulation: seeded operation-history search over forked Parser handles with per-step invariant oracle, fail-return fault bias, minimised replay"),
 "C14": dict(cat="exploration", ref="DESIGN.md 6 (C14)",
  text="Same simulated histories as C13, second oracle: per step the new remainder/piece/value must equal what konst's own free string function (strip/trim/trim_matches/find_skip/split_once/find) computes from the pre-operation remainder (std's str::parse for the -?[0-9]+ prefix of integer parses, because konst's whole-string parser is itself implemented through the Parser), success exactly when it finds something, modelled error kind, modelled one-shot split flag interleaved with all other operations; protocol sub-scenarios compare repeated split/rsplit/split_terminator/rsplit_terminator with std's str::split/rsplit and require a terminating error within len+4 calls (bounded progress).",
  note="Trusted: rustc/std str::split/rsplit/parse, konst's free functions as the per-step reference (as the property states). Empty delimiter excluded from protocol loops. Sampling, not proof.",
  tech="deterministic simulation: seeded operation-history search with per-step reference-model comparison and std-backed protocol sub-scenarios, minimised replay"),
 "C08": dict(cat="exploration", ref="DESIGN.md 6 (C08)",
  text="Seeded simulation of histories (next / next_back / copy-fork / rev / as_slice / remainder / drop, drained to exhaustion) over up to 4 handles onto one slice, for all 13 konst slice-iterator families and their Rev types, element types u8-by-index, () and a 24-byte struct, each step compared by address+length with the std iterator of the same name. Sampling, not proof.",
  note="Trusted: core::slice iterators as reference. len <= 12 (40), sometimes 30..129, for () also within 9 of usize::MAX; sizes 1..=len+2 and (1 run in 24) near usize::MAX; array_chunks N in 1..=4; element types u8, (), 3-byte align-1, 24-byte; <= 64 (256) planned steps + drain; plus a completely enumerated exhaustion sweep (12 constructors x 6 lengths x up to 6 sizes x 6 step patterns).",
  tech=TECH),
 "C09": dict(cat="exploration", ref="DESIGN.md 6 (C09)",
  text="Seeded simulation of front/back/fork/rev histories on konst's range iterators obtained through into_iter! (by value and by reference) for all 12 integer types and char, compared step by step with core::ops range iterators; for_each! (plain, rev() adapter, inherent rev) on the range values and on forked mid-iteration iterators. Bounds biased to MIN/MAX/0/-1, inverted and empty ranges, the surrogate gap; u8/i8 pairs additionally sampled uniformly (visited-pair count reported). Sampling, not proof.",
  note="Trusted: core::ops range iterators. RangeFrom (by value and by reference) never stepped to MAX's successor. Spans <= 40 (300), whole-type ranges 1 run in 40; for_range! on exclusive integer ranges; plus an enumerated sweep around every anchor (MIN, MAX, 0, -1, surrogate gap).",
  tech=TECH),
 "C01": dict(cat="exploration", ref="DESIGN.md 6 (C01)",
  text="SCOPED to the code the simulated histories execute. (a) Natively, in every world and after every step: each non-empty returned slice/str/array reference lies inside the datum it was derived from, each &str is valid UTF-8 on char boundaries of the datum, each char is a scalar value, no dead slot / double drop / drop of garbage (ledger). Includes free-mode histories (mixed next/next_back and mid-iteration rev on Split/RSplit) that have no std counterpart. (b) Under Miri: a sample of the same plans from every world plus the by-value fault sweep (a third of its cells per quick run chosen by the seed, all cells in thorough); any 'Undefined Behavior' diagnostic is a violation with the plan as replay (re-executed under Miri by ./check replay).",
  note="NOT decided: the input-space clause for functions no history calls with adversarial arguments (get_* / *_mut slicing with out-of-range indices, try_into_array, as_rchunks, ffi::cstr, ptr, maybe_uninit, manually_drop) and 'under compile-time evaluation' (no const item is evaluated). Trusted: Miri (nightly 2026-05-03) as UB oracle, address arithmetic of the containment check.",
  tech="deterministic simulation: seeded operation-history search in every world with containment/UTF-8/ledger invariants after each step, re-executed under Miri as UB oracle, fault sweep, minimised replay"),
 "C15": dict(cat="fault_enumeration", ref="DESIGN.md 6 (C15)",
  text="By-value world under fault injection with a drop/move ledger. Stage 1 enumerates the fault space completely: every fault site (Clone inside ArrayConsumer/ArrayBuilder::clone, Drop inside their Drop impls, the closure of map_!/from_fn_!/map!/from_fn! with panic/break/continue/return, the three misuse panics) x N in {0,1,2,3,5,8} x callback index k in 1..=N+1. Stage 2 samples seeded histories (takes from both ends, as_slice/as_mut_slice swaps, clone, Debug, assert_is_empty, early drop, mem::forget, push/build circulation array->consumer->caller->builder->array, 18 destructure! shapes incl. `_`/`..`/packed/generic/16-tuple, u32 copy(), zero-sized Drop elements) with 1-3 armed faults; after EVERY step each token ever created must have a drop count inside the model's allowed range (exactly-once on completing paths, never twice anywhere), identities/order/payload bit-for-bit as the model says.",
  note="Trusted: the ledger token (Clone/Drop bookkeeping in a thread-local), std Vec/VecDeque as model, catch_unwind. Tokens held inside konst at a fault may be dropped 0 or 1 times. Drop order not compared. The fault space is swept completely; the histories around the faults are sampled.",
  tech="deterministic simulation with fault injection: complete sweep of (fault site x size x callback index) plus seeded operation histories, drop/move ledger oracle (exactly-once, order, bit-identity), minimised replay"),
 "C11": dict(cat="exploration", ref="DESIGN.md 6 (C11)",
  text="Same simulated runs as C15, second oracle: (a) builder histories - as_slice()/len()/is_full() equal the model Vec after each step, build() panics when not full or returns exactly the pushed tokens in push order, every slot of every returned array is a live intact token, push on a full builder panics; (b) map_!/from_fn_!/map!/from_fn! at run time on lengths 0..=8: result equals <[T;N]>::map / array::from_fn on the model (identity, clone parentage, fresh-token order), and under panic/break/continue/return at every callback index the macro panics or returns early and never hands back an array. NOT decided: the collect_const! clause (const items evaluated by rustc; nothing executes).",
  note="Trusted: the ledger token, the Vec model. collect_const! clause undecided (named in DESIGN.md 6 C11). `continue` in map!/from_fn! excluded (documented infinite loop).",
  tech="deterministic simulation with fault injection: seeded builder/macro histories with early-exit and panic faults at every callback index, liveness-canary and model-equality oracle, minimised replay"),
 "C07": dict(cat="exploration", ref="DESIGN.md 6 (C07)",
  text="ITERATION CLAUSE ONLY: seeded simulation of front/back/fork/rev/as_str histories on chars/char_indices (and reversed types) over strings of boundary scalars of every UTF-8 length, compared step by step with core::str::{Chars, CharIndices}. The clause 'for every char / every u32' (complete enumeration) is a pure-input statement and is not decided; chr::encode_utf8/from_u32 only run on the scalars the generator places.",
  note="Trusted: core::str iterators. Strings <= 12 (32) chars (1 run in 40: up to 257) of boundary scalars of every UTF-8 length and random scalars; plus an enumerated sweep. Undecided clause named above.",
  tech=TECH),
 "C06": dict(cat="exploration", ref="DESIGN.md 6 (C06)",
  text="Seeded simulation of next/fork/remainder histories on split, rsplit, split_terminator, rsplit_terminator (str and char delimiters incl. the empty string, texts assembled so that delimiters lead, trail, touch and overlap, multi-byte chars), each step compared with the piece sequence of std's iterator (mirrored rule for rsplit_terminator), remainder() after every step compared with the not-yet-split part computed from the piece offsets, rev() of fresh split/rsplit compared with the r-counterpart. Sampling, not proof.",
  note="Trusted: str::split/rsplit/split_terminator. Text <= 12 (24) chars (1 run in 40: up to 300); 21 fixed str delimiters, random delimiters over {a,b} / {a,b,',',e-acute} of length 1..=5, 6 char delimiters; plus an enumerated sweep.",
  tech=TECH),
}

def main():
    props = [json.loads(l)["id"] for l in open("/verif/properties.jsonl")]
    checks = []
    for pid in props:
        if pid in CHECKS:
            c = CHECKS[pid]
            checks.append({
                "property_id": pid,
                "quick_cmd": f"./check {pid} quick",
                "thorough_cmd": f"./check {pid} thorough",
                "evidence_file": f"/verif/evidence/{pid}.json",
                "replay_cmd_template": "./check replay {path}",
                "engine": "ksim",
                "level_claimed": {"category": c["cat"], "text": c["text"], "design_ref": c["ref"]},
                "level_note": c["note"],
                "technique": c["tech"],
            })
    na = []
    for pid in props:
        if pid in CHECKS:
            continue
        na.append({"property_id": pid, "reason": NA.get(pid, NOT_YET)})
    m = {
        "version": 1,
        "setup_cmd": "./check build",
        "hooks": {
            "guard": "--cfg konst_verif (reserved, unused: no hook was needed; every seam is public API)",
            "enable": "none needed; the simulator depends on /repo/konst by path with features default+rust_1_83",
            "baseline_off_cmd": "cd /repo && cargo test --workspace --no-fail-fast --offline",
            "source_commits": [],
            "add_only": True,
        },
        "engines": [{
            "name": "ksim", "path": "/verif/sim", "serves_properties": sorted(CHECKS),
            "kind_free_text": "deterministic simulator: seeded planner (VERIF_SEED -> xoshiro256**), plan-then-execute on real konst objects against reference models, fault injection, delta-debugging minimiser, replay files, multi-process runner with crash and hang containment",
        }],
        "checks": checks,
        "notes": "Fix commits in /repo: e523193 (D1, C13), b7d17ad (D2, C14/C06). See known_findings.json and DESIGN.md 9.",
        "not_applicable": na,
    }
    json.dump(m, open("/verif/MANIFEST.json", "w"), indent=1)
    print("claimed:", sorted(CHECKS), " not claimed:", [n["property_id"] for n in na])

main()
