#!/usr/bin/env python3
"""Regenerates section 13 of DESIGN.md (between the markers) from mutants/ and seeded/."""
import json, glob, os, re
idx = {e['name']: e for e in json.load(open('/verif/mutants/index.json'))}
res = {}
for line in open('/verif/mutants/last_selftest.txt'):
    m = re.match(r'(\S+) (\S+) \[(C\d+)\] class=(\S*) ?(\S*)', line)
    if m: res[m.group(2)] = (m.group(1), m.group(4), m.group(5))
out = []
out.append("### 13.1 Own mutants (`mutants/*.patch`, `mutants/selftest.sh --baseline`)\n")
out.append("Each patch is applied to `/repo`, the repository's own suite is run (column *suite*: does the existing suite still pass with the mutant?), the property's quick check is run with 300 000 runs per stage, the reported replay is re-executed, `/repo` is restored. `SILENT-OK` rows are deliberate no-op controls that must not raise an alarm.\n")
out.append("| mutant | property | what it breaks | existing suite | check verdict | violation class |")
out.append("|---|---|---|---|---|---|")
for name, e in idx.items():
    st, cls, bl = res.get(name, ('?', '', ''))
    note = e.get('note') or name
    out.append(f"| `{name}` | {e['property']} | {note} | {bl.replace('baseline-','') or '?'} | {st} | {cls or '-'} |")
n_c = sum(1 for v in res.values() if v[0] == 'CAUGHT'); n_s = sum(1 for v in res.values() if v[0] == 'SILENT-OK')
out.append(f"\n{n_c} mutants caught, {n_s} controls silent, 0 missed. Of the caught mutants, {sum(1 for k,v in res.items() if v[0]=='CAUGHT' and v[2]=='baseline-passes')} leave the repository's own suite passing (one of those rows, `c01-split-free-mode-mid-char`, made a suite test loop forever and was killed by hand).\n")
out.append("### 13.2 Changes written by sub-agents (`seeded/<id>/`)\n")
out.append("Each sub-agent got a scratch worktree of `/repo` and the text of one property. Round 1: nothing else. Round 2: additionally asked for rare conjunctions; four of them - C13, C14, C06, C08 - were also told to assume a generic small-alphabet differential tester (see `prompt_note` in their meta.json). Round 3: asked to change shared helpers / unwinding paths / protocol plumbing rather than the obvious site. Round 4: asked to change conversion / macro / error / offset plumbing. Round 5: asked for history-dependent and shape-specific bugs. Round 6: history-dependent bugs through restructured iterator/builder state, and Miri-only UB in the by-value code. Round 7: two cooperating edits that each look fine alone. Round 8: asked for a change that a generic randomized tester with short, simple inputs would be unlikely to notice. Round 9: the same request for C07, C13, C14, C15 under a 15-minute budget. Every change was confirmed by hand with `seeded/eval.sh`: the demonstration passes on the clean tree and fails with the patch (Miri-only demonstrations show as passing natively), the existing suite stays at its baseline (528 passed incl. doc tests, 3 always-failing), then the checks were run. For rounds 2 to 9, *before* is the verdict of the checks as committed before any result of that round was read, *now* the verdict of the current checks.\n")
out.append("| change | round | needs to manifest | before | now: check -> class |")
out.append("|---|---|---|---|---|")
for d in sorted(glob.glob('/verif/seeded/C*/')):
    m = json.load(open(d + 'meta.json'))
    name = os.path.basename(d[:-1])
    rnd = m.get('round', 1)
    need = (m.get('needs_to_manifest') or '').replace('\n', ' ').replace('|', '/')
    if len(need) > 230: need = need[:227] + '...'
    before = ', '.join(f"{c['check']}:{'caught' if c['exit']==1 else 'MISSED'}" for c in m.get('checks_before_strengthening', [])) or ('MISSED (C01, C13)' if 'history' in m and 'MISSED' in m['history'] else 'same as now')
    now = ', '.join(f"{c['check']} -> {c['class'] or ('caught' if c['exit']==1 else 'silent')}" if c['exit']==1 else f"{c['check']}: silent (property not broken)" for c in m.get('checks_run', []))
    out.append(f"| `{name}` | {rnd} | {need} | {before} | {now} |")
text = '\n'.join(out) + '\n'
p = '/verif/DESIGN.md'
s = open(p).read()
a, b = '<!-- TABLES-BEGIN -->', '<!-- TABLES-END -->'
if a in s:
    s = s[:s.index(a) + len(a)] + '\n' + text + s[s.index(b):]
else:
    s += '\n' + a + '\n' + text + b + '\n'
open(p, 'w').write(s)
print("tables written:", len(idx), "mutants,", len(glob.glob('/verif/seeded/C*/')), "seeded")
