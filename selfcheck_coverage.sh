#!/bin/bash
# Reach self-check (not a registered check): which regions of konst's sources do the simulated
# runs execute? Builds the simulator with -C instrument-coverage (nightly + its llvm-tools), runs
# 40 000 seeded plans and every sweep of every world in-process, prints llvm-cov's per-file report
# for /repo/konst*/src. Output is also written to coverage_last.txt.
cd "$(dirname "$0")"; ROOT=$(pwd)
T=$(dirname "$(rustc +nightly --print target-libdir)")/bin
[ -x "$T/llvm-profdata" ] || { echo "llvm-tools not found under $T"; exit 2; }
D=/tmp/ksim-cov-$$; mkdir -p $D/prof
(cd sim && LLVM_PROFILE_FILE=$D/build-%p-%m.profraw CARGO_TARGET_DIR=$D/target RUSTFLAGS="-C instrument-coverage" cargo +nightly build --offline --profile checked >/dev/null 2>&1) || { echo "build failed"; exit 2; }
BIN=$D/target/checked/ksim; export LLVM_PROFILE_FILE=$D/prof/%p-%m.profraw
run() { $BIN miri-batch $1 $2 20261001 0 40000 >/dev/null 2>&1; $BIN miri-batch $1 $2 1 0 100000 --sweep >/dev/null 2>&1; }
for p in C13 C14 C01; do run parser $p; done
for p in C06 C01; do run splits $p; done
run chars C07
for w in slices_u8 slices_zst slices_big slices_odd; do run $w C08; done
for t in u8 i8 char u16 i16 u32 i32 u64 i64 u128 i128 usize isize; do run ranges_$t C09; done
for p in C15 C11 C01; do run byvalue $p; done
$T/llvm-profdata merge -sparse $D/prof/*.profraw -o $D/cov.profdata
$T/llvm-cov report $BIN -instr-profile=$D/cov.profdata --ignore-filename-regex='(registry|rustc|/verif/|rustlib)' 2>/dev/null \
  | awk 'NR>2 && $1 !~ /^-+$/ {printf "%-58s regions %5s missed %5s covered %8s | lines %5s missed %5s covered %8s\n", $1, $2, $3, $4, $8, $9, $10}' | tee coverage_last.txt
# line-level: which source lines were executed at least once (used by mutants/auto.py to skip dead code)
python3 - "$T" "$BIN" "$D/cov.profdata" <<'PY'
import subprocess, sys, json, re, glob
T, BIN, PROF = sys.argv[1:4]
out = {}
files = [f for pat in ('/repo/konst/src/**/*.rs', '/repo/konst_kernel/src/**/*.rs') for f in glob.glob(pat, recursive=True)]
for f in files:
    txt = subprocess.run([T + '/llvm-cov', 'show', BIN, '-instr-profile=' + PROF, f], capture_output=True, text=True).stdout
    cov = []
    for line in txt.split('\n'):
        m = re.match(r'\s*(\d+)\|\s*([0-9.]+[kKMG]?)\|', line)
        if m and m.group(2) not in ('0',):
            cov.append(int(m.group(1)))
    if cov:
        out[f.replace('/repo/', '')] = cov
json.dump(out, open('/verif/coverage_lines.json', 'w'))
print('covered lines recorded for', len(out), 'files')
PY
rm -rf $D
