#!/usr/bin/env python3
"""Validate MANIFEST.json and evidence files against the harness schemas (run with python3-vt)."""
import json, sys, glob, jsonschema
m = json.load(open('/verif/MANIFEST.json'))
jsonschema.validate(m, json.load(open('/root/.vp/MANIFEST.schema.json')))
props = [json.loads(l)['id'] for l in open('/verif/properties.jsonl')]
claimed = [c['property_id'] for c in m['checks']]
na = [n['property_id'] for n in m.get('not_applicable', [])]
assert sorted(claimed + na) == sorted(props), (sorted(claimed + na), props)
print("manifest ok; claimed", claimed)
es = json.load(open('/root/.vp/EVIDENCE.schema.json'))
for c in m['checks']:
    p = c['evidence_file']
    try:
        e = json.load(open(p))
    except FileNotFoundError:
        print("MISSING", p); continue
    jsonschema.validate(e, es)
    assert e['level'] == c['level_claimed']['category'], (p, e['level'])
    print(p, "ok", e['tier'], e['coverage']['evaluations'], e['coverage']['distinct_nontrivial'])
