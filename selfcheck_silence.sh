#!/bin/bash
# Zero-alarm self-check (not a registered check): every quick check must exit 0 on the unchanged
# tree under many further VERIF_SEED values. usage: selfcheck_silence.sh [nseeds=200] [runs=300000]
cd "$(dirname "$0")"; ROOT=$(pwd); ./check build >/dev/null || exit 2
nseeds="${1:-200}"; runs="${2:-300000}"; bad=0; n=0
props=$(python3 -c "import json;[print(c['property_id']) for c in json.load(open('MANIFEST.json'))['checks']]")
export KSIM_ROOT=/tmp/ksim-silence-$$; mkdir -p $KSIM_ROOT/target; cp known_findings.json $KSIM_ROOT/; cp -r regressions $KSIM_ROOT/
for i in $(seq 1 $nseeds); do
  seed=$(( (i * 40503 + 977) % 2147483647 ))
  for p in $props; do
    out=$(VERIF_SEED=$seed KSIM_NO_MIRI=1 KSIM_RUNS=$runs ./target/checked/ksim check $p quick 2>&1); code=$?
    n=$((n+1))
    if [ $code -ne 0 ]; then echo "ALARM seed=$seed prop=$p exit=$code"; echo "$out" | grep -E "violation|VIOLATION|HARNESS" | head -3; bad=$((bad+1)); cp $KSIM_ROOT/replays/* /tmp/ 2>/dev/null; fi
  done
done
rm -rf $KSIM_ROOT
echo "$n check runs under $nseeds seeds, $bad alarms"
[ $bad = 0 ]
