#!/bin/bash
# Re-runs every registered check on the current tree (tier = $1, default quick) and validates
# manifest + evidence. Not itself a registered check.
cd "$(dirname "$0")"
tier="${1:-quick}"; rc=0
[ -n "$(git -C /repo status --porcelain)" ] && { echo "WARNING: /repo has uncommitted changes"; }
for p in $(python3 -c "import json;[print(c['property_id']) for c in json.load(open('MANIFEST.json'))['checks']]"); do
  ./check $p $tier | tail -1 || true
  [ ${PIPESTATUS[0]} -ne 0 ] && rc=1
done
python3-vt tools_validate.py || rc=1
exit $rc
