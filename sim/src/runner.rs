//! Batch runner: parent/worker process model, crash containment, minimisation driver,
//! replay, evidence writer.

use crate::kernel::*;
use crate::prng::{run_seed, Rng};
use crate::registry::{stages_for, with_world, Stage};
use serde::{Deserialize, Serialize};
use serde_json::{json, Value};
use std::collections::{BTreeMap, HashSet};
use std::io::Write;
use std::path::{Path, PathBuf};
use std::process::{Command, Stdio};
use std::time::Instant;

pub const DEFAULT_SEED: u64 = 20261001;
pub const MAX_FOUND_PER_WORKER: usize = 8;

pub fn verif_seed() -> u64 {
    match std::env::var("VERIF_SEED") {
        Ok(s) => s.trim().parse::<u64>().unwrap_or_else(|_| {
            // non-numeric seeds are hashed so that every string still selects one execution
            crate::prng::fnv1a(s.as_bytes())
        }),
        Err(_) => DEFAULT_SEED,
    }
}

pub fn profile_name() -> &'static str {
    if cfg!(debug_assertions) {
        "checked"
    } else {
        "fast"
    }
}

pub fn verif_root() -> PathBuf {
    std::env::var_os("KSIM_ROOT").map(PathBuf::from).unwrap_or_else(|| PathBuf::from("/verif"))
}

#[derive(Serialize, Deserialize, Clone)]
pub struct Found {
    #[serde(default)]
    pub no_minimise: bool,
    pub run: u64,
    pub world: String,
    pub profile: String,
    pub case: Value,
    pub violation: Violation,
}

#[derive(Serialize, Deserialize, Default)]
pub struct WorkerOut {
    pub world: String,
    pub profile: String,
    pub from: u64,
    pub to: u64,
    pub runs: u64,
    pub steps: u64,
    pub fail_ops: u64,
    pub nontrivial_runs: u64,
    pub probes: BTreeMap<String, u64>,
    pub faults: BTreeMap<String, u64>,
    pub set_names: Vec<String>,
    pub found: Vec<Found>,
    pub violating_runs: u64,
    pub samples: Vec<Value>,
    pub trace_hash: u64,
}

fn write_set(path: &Path, set: &HashSet<u64>) -> std::io::Result<()> {
    let mut v: Vec<u64> = set.iter().copied().collect();
    v.sort_unstable();
    let mut buf = Vec::with_capacity(v.len() * 8);
    for x in v {
        buf.extend_from_slice(&x.to_le_bytes());
    }
    std::fs::write(path, buf)
}

fn read_set(path: &Path, into: &mut HashSet<u64>) {
    if let Ok(buf) = std::fs::read(path) {
        for c in buf.chunks_exact(8) {
            into.insert(u64::from_le_bytes(c.try_into().unwrap()));
        }
    }
}

/// Hash of one run's plan and event log; combined commutatively so that the batch hash does
/// not depend on how runs are partitioned over workers.
pub fn run_trace_hash(run: u64, case_json: &str, lines: &[String], failed: bool) -> u64 {
    let mut h = crate::prng::mix(run, crate::prng::fnv1a(case_json.as_bytes()));
    for line in lines {
        h = crate::prng::mix(h, crate::prng::fnv1a(line.as_bytes()));
    }
    crate::prng::mix(h, failed as u64)
}

pub fn gen_case<W: World>(seed: u64, prop: &str, tier: Tier, run: u64) -> W::Case {
    let label = format!("{}/{}", W::NAME, prop);
    let mut rng = Rng::new(run_seed(seed, &label, run));
    W::generate(&mut rng, &GenCfg { tier, prop: prop.to_string() })
}

/// Worker: executes runs `from..to`, writes `<out>.json` and the binary set files.
pub fn worker<W: World>(
    prop: &str,
    tier: Tier,
    seed: u64,
    from: u64,
    to: u64,
    out: &Path,
    careful: bool,
    trace: bool,
    sweep: bool,
) -> i32 {
    install_quiet_panic_hook();
    let mut ctx = Ctx::new(prop, tier);
    let mut wo = WorkerOut {
        world: W::NAME.to_string(),
        profile: profile_name().to_string(),
        from,
        to,
        ..Default::default()
    };
    let progress_path = out.with_extension("progress");
    let mut trace_hash: u64 = 0;
    let mut sweep_cases: std::collections::BTreeMap<u64, W::Case> =
        if sweep { W::sweep_some(&(from..to).collect::<Vec<u64>>()).into_iter().collect() } else { Default::default() };
    for run in from..to {
        if careful {
            let _ = std::fs::write(&progress_path, run.to_string());
        }
        let case = if sweep {
            match sweep_cases.remove(&run) {
                Some(c) => c,
                None => continue,
            }
        } else {
            gen_case::<W>(seed, prop, tier, run)
        };
        if trace {
            ctx.trace = Some(Vec::new());
        }
        let r = std::panic::catch_unwind(std::panic::AssertUnwindSafe(|| run_case::<W>(&case, &mut ctx)));
        let r = match r {
            Ok(r) => r,
            Err(p) => {
                eprintln!(
                    "HARNESS-ERROR: panic outside a konst guard in world {} run {}: {}",
                    W::NAME,
                    run,
                    panic_message(&*p)
                );
                eprintln!("case: {}", serde_json::to_string(&case).unwrap_or_default());
                return 2;
            }
        };
        if trace {
            let t = ctx.trace.take().unwrap_or_default();
            trace_hash = trace_hash.wrapping_add(run_trace_hash(run, &serde_json::to_string(&case).unwrap(), &t, r.is_err()));
        }
        if wo.samples.len() < 3 && ctx.cov.last_run_nontrivial && r.is_ok() {
            wo.samples.push(json!({"run": run, "world": W::NAME, "case": serde_json::to_value(&case).unwrap()}));
        }
        if let Err(v) = r {
            wo.violating_runs += 1;
            if wo.found.len() < MAX_FOUND_PER_WORKER {
                wo.found.push(Found {
                    no_minimise: false,
                    run,
                    world: W::NAME.to_string(),
                    profile: profile_name().to_string(),
                    case: serde_json::to_value(&case).unwrap(),
                    violation: v,
                });
            }
        }
    }
    wo.trace_hash = trace_hash;
    wo.runs = ctx.cov.runs;
    wo.steps = ctx.cov.steps;
    wo.fail_ops = ctx.cov.fail_ops;
    wo.nontrivial_runs = ctx.cov.nontrivial_runs;
    wo.probes = ctx.cov.probes.iter().map(|(k, v)| (k.to_string(), *v)).collect();
    wo.faults = ctx.cov.faults.iter().map(|(k, v)| (k.to_string(), *v)).collect();
    wo.set_names = ctx.cov.sets.keys().map(|k| k.to_string()).collect();
    let ok = write_set(&out.with_extension("states.bin"), &ctx.cov.states).is_ok()
        && write_set(&out.with_extension("runfps.bin"), &ctx.cov.run_fps).is_ok()
        && ctx
            .cov
            .sets
            .iter()
            .all(|(k, s)| write_set(&out.with_extension(format!("set.{k}.bin")), s).is_ok())
        && std::fs::write(out.with_extension("json"), serde_json::to_vec(&wo).unwrap()).is_ok();
    if !ok {
        eprintln!("HARNESS-ERROR: worker could not write its output under {}", out.display());
        return 2;
    }
    0
}

/// In-process batch for the Miri tier (also runs natively). Output protocol on stdout:
/// `RUN <i>` before each run, `FOUND <json Found>` per oracle violation, `DONE <runs> <steps>`.
pub fn miri_batch<W: World>(prop: &str, seed: u64, from: u64, to: u64, sweep: bool, stride: u64, offset: u64, light: bool) -> i32 {
    install_quiet_panic_hook();
    let mut ctx = Ctx::new(prop, Tier::Quick);
    let trace = std::env::args().any(|a| a == "--trace");
    let mut th = 0u64;
    let wanted: Vec<u64> = (from..to).filter(|r| stride <= 1 || r % stride == offset % stride).collect();
    let mut sweep_cases: std::collections::BTreeMap<u64, W::Case> = if sweep { W::sweep_some(&wanted).into_iter().collect() } else { Default::default() };
    for run in from..to {
        if sweep && !sweep_cases.contains_key(&run) {
            continue;
        }
        println!("RUN {run}");
        let case = if sweep {
            match sweep_cases.remove(&run) {
                Some(c) => c,
                None => continue,
            }
        } else {
            gen_case::<W>(seed, prop, Tier::Quick, run)
        };
        if std::env::args().any(|a| a == "--gen-only") {
            continue;
        }
        if trace {
            ctx.trace = Some(Vec::new());
        }
        let r = run_case::<W>(&case, &mut ctx);
        if trace {
            let t = ctx.trace.take().unwrap_or_default();
            th = th.wrapping_add(run_trace_hash(run, &serde_json::to_string(&case).unwrap(), &t, r.is_err()));
        }
        if let Err(v) = r {
            let f = Found { no_minimise: false, run, world: format!("miri:{}", W::NAME), profile: "miri".into(), case: serde_json::to_value(&case).unwrap(), violation: v };
            println!("FOUND {}", serde_json::to_string(&f).unwrap());
        }
    }
    if trace {
        println!("TRACE {th:016x}");
    }
    println!("DONE {} {}", ctx.cov.runs, ctx.cov.steps);
    0
}

#[derive(Default)]
pub struct StageResult {
    pub world: String,
    pub sweep: bool,
    pub runs: u64,
    pub steps: u64,
    pub fail_ops: u64,
    pub nontrivial_runs: u64,
    pub probes: BTreeMap<String, u64>,
    pub faults: BTreeMap<String, u64>,
    pub states: HashSet<u64>,
    pub run_fps: HashSet<u64>,
    pub sets: BTreeMap<String, HashSet<u64>>,
    pub found: Vec<Found>,
    pub violating_runs: u64,
    pub samples: Vec<Value>,
    pub profiles: BTreeMap<String, u64>,
    pub trace_hash: u64,
    pub harness_error: Option<String>,
}

fn n_workers() -> usize {
    std::env::var("KSIM_WORKERS")
        .ok()
        .and_then(|s| s.parse().ok())
        .unwrap_or_else(|| std::thread::available_parallelism().map(|n| n.get()).unwrap_or(4))
        .max(1)
}

struct Job {
    exe: PathBuf,
    profile: String,
    from: u64,
    to: u64,
    out: PathBuf,
}

/// Runs one stage (one world, a range of run indices) on worker processes.
pub fn run_stage(prop: &str, tier: Tier, seed: u64, stage: &Stage, scratch: &Path, trace: bool) -> StageResult {
    let mut res = StageResult { world: stage.world.to_string(), sweep: stage.sweep, ..Default::default() };
    let self_exe = std::env::current_exe().expect("current_exe");
    let fast_exe = std::env::var_os("KSIM_FAST_EXE").map(PathBuf::from);
    let nw = n_workers() as u64;
    let mut jobs: Vec<Job> = Vec::new();
    let mut add_jobs = |exe: &Path, profile: &str, base: u64, n: u64, tag: &str| {
        if n == 0 {
            return;
        }
        let per = (n + nw - 1) / nw;
        let mut from = base;
        let mut k = 0;
        while from < base + n {
            let to = (from + per).min(base + n);
            jobs.push(Job {
                exe: exe.to_path_buf(),
                profile: profile.to_string(),
                from,
                to,
                out: scratch.join(format!("{}{}-{}-{}", stage.world, if stage.sweep { "-sweep" } else { "" }, tag, k)),
            });
            from = to;
            k += 1;
        }
    };
    let n = stage.runs;
    add_jobs(&self_exe, profile_name(), 0, n, "a");
    if tier == Tier::Thorough && !stage.sweep {
        if let Some(fe) = &fast_exe {
            // the second profile explores a disjoint range of run indices
            add_jobs(fe, "fast", n, n, "b");
        }
    }

    // all jobs at once would oversubscribe when two profiles run; run them in waves of `nw`
    let mut idx = 0;
    while idx < jobs.len() {
        let wave_end = (idx + nw as usize).min(jobs.len());
        let mut children = Vec::new();
        for j in &jobs[idx..wave_end] {
            let mut cmd = Command::new(&j.exe);
            cmd.arg("worker")
                .arg(stage.world)
                .arg(prop)
                .arg(tier.as_str())
                .arg(seed.to_string())
                .arg(j.from.to_string())
                .arg(j.to.to_string())
                .arg(&j.out);
            if trace {
                cmd.arg("--trace");
            }
            if stage.sweep {
                cmd.arg("--sweep");
            }
            cmd.stdin(Stdio::null());
            match cmd.spawn() {
                Ok(c) => children.push(Some(c)),
                Err(e) => {
                    res.harness_error = Some(format!("cannot spawn worker {}: {e}", j.exe.display()));
                    return res;
                }
            }
        }
        let deadline = Instant::now() + stage_timeout(tier);
        let mut statuses: Vec<Option<std::io::Result<std::process::ExitStatus>>> = (0..children.len()).map(|_| None).collect();
        let mut hung: Vec<bool> = vec![false; children.len()];
        loop {
            let mut pending = 0;
            for (k, c) in children.iter_mut().enumerate() {
                if statuses[k].is_some() {
                    continue;
                }
                match c.as_mut().unwrap().try_wait() {
                    Ok(Some(st)) => statuses[k] = Some(Ok(st)),
                    Ok(None) => pending += 1,
                    Err(e) => statuses[k] = Some(Err(e)),
                }
            }
            if pending == 0 {
                break;
            }
            if Instant::now() > deadline {
                // bounded progress: a worker that does not finish within the stage budget is hung
                for (k, c) in children.iter_mut().enumerate() {
                    if statuses[k].is_none() {
                        let ch = c.as_mut().unwrap();
                        let _ = ch.kill();
                        statuses[k] = Some(ch.wait());
                        hung[k] = true;
                    }
                }
                break;
            }
            std::thread::sleep(std::time::Duration::from_millis(5));
        }
        for (k, status) in statuses.into_iter().enumerate() {
            let j = &jobs[idx + k];
            let status = status.unwrap();
            if hung[k] {
                match locate_crash(prop, tier, seed, stage, j, None, true) {
                    Ok(f) => {
                        res.found.push(f);
                        res.violating_runs += 1;
                    }
                    Err(e) => {
                        res.harness_error = Some(e);
                        return res;
                    }
                }
                continue;
            }
            match status {
                Ok(st) if st.success() => {}
                Ok(st) if st.code() == Some(2) => {
                    res.harness_error = Some(format!("worker for runs {}..{} reported a harness error", j.from, j.to));
                    return res;
                }
                Ok(st) => {
                    // died on a signal (or an abort): a process crash inside konst code.
                    let crash = locate_crash(prop, tier, seed, stage, j, st.code(), false);
                    match crash {
                        Ok(f) => {
                            res.found.push(f);
                            res.violating_runs += 1;
                        }
                        Err(e) => {
                            res.harness_error = Some(e);
                            return res;
                        }
                    }
                    continue;
                }
                Err(e) => {
                    res.harness_error = Some(format!("wait failed: {e}"));
                    return res;
                }
            }
            let bytes = match std::fs::read(j.out.with_extension("json")) {
                Ok(b) => b,
                Err(e) => {
                    res.harness_error = Some(format!("missing worker output {}: {e}", j.out.display()));
                    return res;
                }
            };
            let wo: WorkerOut = match serde_json::from_slice(&bytes) {
                Ok(w) => w,
                Err(e) => {
                    res.harness_error = Some(format!("bad worker output: {e}"));
                    return res;
                }
            };
            res.runs += wo.runs;
            res.steps += wo.steps;
            res.fail_ops += wo.fail_ops;
            res.nontrivial_runs += wo.nontrivial_runs;
            res.violating_runs += wo.violating_runs;
            *res.profiles.entry(j.profile.clone()).or_insert(0) += wo.runs;
            for (k, v) in wo.probes {
                *res.probes.entry(k).or_insert(0) += v;
            }
            for (k, v) in wo.faults {
                *res.faults.entry(k).or_insert(0) += v;
            }
            read_set(&j.out.with_extension("states.bin"), &mut res.states);
            read_set(&j.out.with_extension("runfps.bin"), &mut res.run_fps);
            for name in wo.set_names {
                let s = res.sets.entry(name.clone()).or_default();
                read_set(&j.out.with_extension(format!("set.{name}.bin")), s);
            }
            res.found.extend(wo.found);
            if res.samples.len() < 3 {
                for s in wo.samples {
                    if res.samples.len() < 3 {
                        res.samples.push(s);
                    }
                }
            }
            res.trace_hash = res.trace_hash.wrapping_add(wo.trace_hash);
        }
        idx = wave_end;
    }
    res.found.sort_by_key(|f| f.run);
    res
}

pub fn stage_timeout(tier: Tier) -> std::time::Duration {
    let default = if tier == Tier::Quick { 180 } else { 5400 };
    let s = std::env::var("KSIM_STAGE_TIMEOUT_S").ok().and_then(|s| s.parse().ok()).unwrap_or(default);
    std::time::Duration::from_secs(s)
}

/// Waits for a child with a deadline; None = it had to be killed.
fn wait_deadline(child: &mut std::process::Child, limit: std::time::Duration) -> Option<std::process::ExitStatus> {
    let deadline = Instant::now() + limit;
    loop {
        match child.try_wait() {
            Ok(Some(st)) => return Some(st),
            Ok(None) => {}
            Err(_) => return None,
        }
        if Instant::now() > deadline {
            let _ = child.kill();
            let _ = child.wait();
            return None;
        }
        std::thread::sleep(std::time::Duration::from_millis(2));
    }
}

/// After a worker died on a signal or hung: re-run its range with a progress marker to find the run.
fn locate_crash(prop: &str, tier: Tier, seed: u64, stage: &Stage, j: &Job, code: Option<i32>, hung: bool) -> Result<Found, String> {
    let out = j.out.with_extension("careful");
    let mut child = Command::new(&j.exe)
        .arg("worker")
        .arg(stage.world)
        .arg(prop)
        .arg(tier.as_str())
        .arg(seed.to_string())
        .arg(j.from.to_string())
        .arg(j.to.to_string())
        .arg(&out)
        .arg(if stage.sweep { "--sweep" } else { "--no-sweep" })
        .arg("--careful")
        .stdin(Stdio::null())
        .stderr(Stdio::null())
        .spawn()
        .map_err(|e| format!("cannot re-run crashed worker: {e}"))?;
    let st = wait_deadline(&mut child, stage_timeout(tier) / 2);
    if let Some(st) = st {
        if st.success() {
            return Err(format!(
                "worker for runs {}..{} {} but the careful re-run passed: not deterministic",
                j.from, j.to, if hung { "hung".to_string() } else { format!("died (code {:?})", code) }
            ));
        }
    }
    let still_hung = st.is_none();
    let run: u64 = std::fs::read_to_string(out.with_extension("progress"))
        .ok()
        .and_then(|s| s.trim().parse().ok())
        .ok_or_else(|| "no progress marker after crash".to_string())?;
    let case = if stage.sweep {
        with_world!(stage.world, W => serde_json::to_value(<W as World>::sweep_case(run)).unwrap())
    } else {
        with_world!(stage.world, W => serde_json::to_value(gen_case::<W>(seed, prop, tier, run)).unwrap())
    };
    let violation = if still_hung {
        viol("process-hang", usize::MAX, "the run did not finish within the time budget (bounded progress): some konst call does not terminate".to_string())
    } else {
        viol(
            "process-crash",
            usize::MAX,
            format!("worker process died (exit code {:?}, i.e. a signal or abort) while executing this run", code),
        )
    };
    Ok(Found { no_minimise: false, run, world: stage.world.to_string(), profile: j.profile.clone(), case, violation })
}

// ------------------------------------------------------------------------------------------
// replay / minimise

pub fn exec_value(world: &str, prop: &str, tier: Tier, case: &Value) -> Result<Res, String> {
    with_world!(world, W => {
        let case: <W as World>::Case = serde_json::from_value(case.clone()).map_err(|e| format!("bad case: {e}"))?;
        let mut ctx = Ctx::new(prop, tier);
        let r = std::panic::catch_unwind(std::panic::AssertUnwindSafe(|| run_case::<W>(&case, &mut ctx)));
        match r {
            Ok(r) => Ok(r),
            Err(p) => Err(format!("harness panic: {}", panic_message(&*p))),
        }
    })
}

/// Executes a case in a child process; Some(violation) if it fails there (including crashes).
fn exec_in_child(world: &str, prop: &str, case: &Value, scratch: &Path, exe: &Path) -> Option<Violation> {
    let f = scratch.join("cand.json");
    let rf = ReplayFile {
        format: "ksim-replay-1".into(),
        property: prop.into(),
        world: world.into(),
        verif_seed: 0,
        run: 0,
        profile: profile_name().into(),
        case: case.clone(),
        violation: viol("candidate", 0, String::new()),
        minimised: false,
        original_steps: 0,
        minimise_executions: 0,
    };
    std::fs::write(&f, serde_json::to_vec(&rf).ok()?).ok()?;
    let mut child = Command::new(exe).arg("replay").arg(&f).arg("--json").stdin(Stdio::null()).stderr(Stdio::null()).stdout(Stdio::piped()).spawn().ok()?;
    let st = wait_deadline(&mut child, std::time::Duration::from_secs(5));
    let Some(st) = st else {
        return Some(viol("process-hang", usize::MAX, "child did not finish within 5 s".into()));
    };
    let mut stdout = Vec::new();
    if let Some(mut o) = child.stdout.take() {
        use std::io::Read;
        let _ = o.read_to_end(&mut stdout);
    }
    match st.code() {
        Some(0) => None,
        Some(1) => serde_json::from_slice::<Violation>(&stdout).ok(),
        Some(_) => None,
        None => Some(viol("process-crash", usize::MAX, "child died on a signal".into())),
    }
}

/// What the minimiser hands back: (case, violation, executions, original plan length)
type Minimised = (Value, Violation, usize, usize);

#[derive(Serialize, Deserialize)]
struct MinimiseJob {
    found: Found,
    prop: String,
    tier: Tier,
}
#[derive(Serialize, Deserialize)]
struct MinimiseResult {
    case: Value,
    violation: Violation,
    executions: usize,
    original_len: usize,
}

/// In-process minimisation (fast). Only ever called inside a child process (`minimise-inproc`):
/// a candidate plan may abort the process (a panic inside a destructor while unwinding).
fn minimise_inproc(f: &Found, prop: &str, tier: Tier) -> Minimised {
    let deadline = Instant::now() + std::time::Duration::from_secs(20);
    let world = f.world.clone();
    with_world!(world.as_str(), W => {
        let case: <W as World>::Case = match serde_json::from_value(f.case.clone()) {
            Ok(c) => c,
            Err(_) => return (f.case.clone(), f.violation.clone(), 0, 0),
        };
        let orig_len = W::plan_len(&case);
        let out = minimise::<W>(
            &case,
            &f.violation,
            |cand| {
                if Instant::now() > deadline {
                    return None;
                }
                let mut ctx = Ctx::new(prop, tier);
                match std::panic::catch_unwind(std::panic::AssertUnwindSafe(|| run_case::<W>(cand, &mut ctx))) {
                    Ok(Err(v)) => Some(v),
                    _ => None,
                }
            },
            2000,
        );
        (serde_json::to_value(&out.case).unwrap(), out.violation, out.executions, orig_len)
    })
}

/// `ksim minimise-inproc <job.json>`: prints a MinimiseResult as JSON
pub fn cmd_minimise_inproc(path: &str) -> i32 {
    install_quiet_panic_hook();
    let Ok(bytes) = std::fs::read(path) else { return 2 };
    let Ok(job) = serde_json::from_slice::<MinimiseJob>(&bytes) else { return 2 };
    let (case, violation, executions, original_len) = minimise_inproc(&job.found, &job.prop, job.tier);
    println!("{}", serde_json::to_string(&MinimiseResult { case, violation, executions, original_len }).unwrap());
    0
}

/// Minimisation with containment: Miri-tier findings through the interpreter, crashes and hangs
/// with one child process per candidate, everything else in ONE child process that minimises
/// in-process; if that child dies, fall back to one child per candidate.
pub fn minimise_found(f: &Found, prop: &str, tier: Tier, scratch: &Path, exe: &Path) -> Minimised {
    let crashy = f.violation.class == "process-crash" || f.violation.class == "process-hang";
    let is_miri = f.world.starts_with("miri:");
    if !crashy && !is_miri {
        let job = scratch.join(format!("minimise-job-{}.json", f.run));
        let ok = std::fs::write(&job, serde_json::to_vec(&MinimiseJob { found: f.clone(), prop: prop.to_string(), tier }).unwrap()).is_ok();
        if ok {
            if let Ok(mut child) = Command::new(exe).arg("minimise-inproc").arg(&job).stdin(Stdio::null()).stderr(Stdio::null()).stdout(Stdio::piped()).spawn() {
                let st = wait_deadline(&mut child, std::time::Duration::from_secs(40));
                let mut stdout = Vec::new();
                if let Some(mut o) = child.stdout.take() {
                    use std::io::Read;
                    let _ = o.read_to_end(&mut stdout);
                }
                if let (Some(st), Ok(r)) = (st, serde_json::from_slice::<MinimiseResult>(&stdout)) {
                    if st.success() {
                        return (r.case, r.violation, r.executions, r.original_len);
                    }
                }
            }
        }
        // the in-process minimiser died or hung: candidates go through child processes below
    }
    let max_exec: usize = if is_miri { 24 } else { 120 };
    let deadline = Instant::now() + std::time::Duration::from_secs(if is_miri { 150 } else { 60 });
    let world = f.world.clone();
    let bare = world.strip_prefix("miri:").unwrap_or(&world).to_string();
    with_world!(bare.as_str(), W => {
        let case: <W as World>::Case = match serde_json::from_value(f.case.clone()) {
            Ok(c) => c,
            Err(_) => return (f.case.clone(), f.violation.clone(), 0, 0),
        };
        let orig_len = W::plan_len(&case);
        let out = minimise::<W>(
            &case,
            &f.violation,
            |cand| {
                if Instant::now() > deadline {
                    return None;
                }
                if is_miri {
                    crate::miri::exec_in_miri(&world, prop, &serde_json::to_value(cand).ok()?, scratch)
                } else {
                    exec_in_child(&world, prop, &serde_json::to_value(cand).ok()?, scratch, exe)
                }
            },
            max_exec,
        );
        (serde_json::to_value(&out.case).unwrap(), out.violation, out.executions, orig_len)
    })
}

pub fn cmd_replay(path: &str, json_out: bool) -> i32 {
    install_quiet_panic_hook();
    let bytes = match std::fs::read(path) {
        Ok(b) => b,
        Err(e) => {
            eprintln!("HARNESS-ERROR: cannot read {path}: {e}");
            return 2;
        }
    };
    let rf: ReplayFile = match serde_json::from_slice(&bytes) {
        Ok(r) => r,
        Err(e) => {
            eprintln!("HARNESS-ERROR: bad replay file {path}: {e}");
            return 2;
        }
    };
    // (`--inproc`: the Miri tier replays inside the interpreter, which cannot spawn processes)
    let inproc = std::env::args().any(|a| a == "--inproc");
    if !json_out && !inproc {
        // user-facing replay: the plan itself runs in a child process, so that a plan which kills
        // the process (abort on a double panic, segfault) or never ends is still reported properly
        let exe = std::env::current_exe().expect("current_exe");
        let mut child = match Command::new(&exe).arg("replay").arg(path).arg("--json").stdin(Stdio::null()).stderr(Stdio::null()).stdout(Stdio::piped()).spawn() {
            Ok(c) => c,
            Err(e) => {
                eprintln!("HARNESS-ERROR: cannot spawn replay child: {e}");
                return 2;
            }
        };
        let limit: u64 = std::env::var("KSIM_REPLAY_TIMEOUT_S").ok().and_then(|s| s.parse().ok()).unwrap_or(30);
        let st = wait_deadline(&mut child, std::time::Duration::from_secs(limit));
        let mut stdout = Vec::new();
        if let Some(mut o) = child.stdout.take() {
            use std::io::Read;
            let _ = o.read_to_end(&mut stdout);
        }
        let v: Option<Violation> = match st.map(|s| s.code()) {
            None => Some(viol("process-hang", usize::MAX, format!("the plan did not finish within {limit} s (bounded progress)"))),
            Some(Some(0)) => None,
            Some(Some(1)) => Some(serde_json::from_slice::<Violation>(&stdout).unwrap_or_else(|_| viol("unknown", 0, String::new()))),
            Some(Some(2)) => {
                eprintln!("HARNESS-ERROR: replay child reported a harness error");
                return 2;
            }
            Some(code) => Some(viol("process-crash", usize::MAX, format!("the process executing the plan died (exit code {:?}, i.e. a signal or abort)", code))),
        };
        return match v {
            None => {
                println!("replay {}: property {} held on this plan (profile {})", path, rf.property, profile_name());
                0
            }
            Some(v) => {
                println!("replay {}: class={} step={} detail={}", path, v.class, v.step, v.detail);
                let same = v.class == rf.violation.class && v.step == rf.violation.step;
                println!("same-as-recorded={same}");
                println!("VIOLATION property={} replay={}", rf.property, path);
                1
            }
        };
    }
    // bounded progress: a plan that does not finish is reported as a hang, not waited for
    {
        let (prop, path, json_out) = (rf.property.clone(), path.to_string(), json_out);
        let limit: u64 = std::env::var("KSIM_REPLAY_TIMEOUT_S").ok().and_then(|s| s.parse().ok()).unwrap_or(if json_out { 4 } else { 30 });
        std::thread::spawn(move || {
            std::thread::sleep(std::time::Duration::from_secs(limit));
            let v = viol("process-hang", usize::MAX, format!("the plan did not finish within {limit} s (bounded progress)"));
            if json_out {
                println!("{}", serde_json::to_string(&v).unwrap());
            } else {
                println!("replay {}: class={} detail={}", path, v.class, v.detail);
                println!("VIOLATION property={} replay={}", prop, path);
            }
            std::process::exit(1);
        });
    }
    let world = rf.world.strip_prefix("miri:").unwrap_or(&rf.world).to_string();
    match exec_value(&world, &rf.property, Tier::Quick, &rf.case) {
        Err(e) => {
            eprintln!("HARNESS-ERROR: {e}");
            2
        }
        Ok(Ok(())) => {
            if !json_out {
                println!("replay {}: property {} held on this plan (profile {})", path, rf.property, profile_name());
            }
            0
        }
        Ok(Err(v)) => {
            if json_out {
                println!("{}", serde_json::to_string(&v).unwrap());
            } else {
                println!("replay {}: class={} step={} detail={}", path, v.class, v.step, v.detail);
                let same = v.class == rf.violation.class && v.step == rf.violation.step;
                println!("same-as-recorded={same}");
                println!("VIOLATION property={} replay={}", rf.property, path);
            }
            1
        }
    }
}

// ------------------------------------------------------------------------------------------
// known findings

#[derive(Deserialize, Clone)]
pub struct KnownFinding {
    pub status: String, // "open" | "fixed"
    pub property: String,
    #[serde(default)]
    pub commit: String,
    pub what: String,
    /// open findings only: violation classes covered
    #[serde(default)]
    pub classes: Vec<String>,
    /// open findings only: name of a predicate over the minimised case (see registry::finding_matches)
    #[serde(default)]
    pub signature: String,
}

#[derive(Deserialize, Default)]
pub struct KnownFindings {
    #[serde(default)]
    pub findings: Vec<KnownFinding>,
}

pub fn load_known() -> KnownFindings {
    let p = verif_root().join("known_findings.json");
    match std::fs::read(&p) {
        Ok(b) => serde_json::from_slice(&b).unwrap_or_default(),
        Err(_) => KnownFindings::default(),
    }
}

// ------------------------------------------------------------------------------------------
// check = all stages + evidence + verdict

pub struct CheckOutcome {
    pub exit: i32,
}

pub fn cmd_check(prop: &str, tier: Tier) -> i32 {
    let t0 = Instant::now();
    let seed = verif_seed();
    println!("ksim: property={prop} tier={} VERIF_SEED={seed} profile={} workers={}", tier.as_str(), profile_name(), n_workers());
    let stages = match stages_for(prop, tier) {
        Some(s) => s,
        None => {
            eprintln!("HARNESS-ERROR: property {prop} has no simulated check (see MANIFEST.json not_applicable)");
            return 2;
        }
    };
    let root = verif_root();
    let scratch = root.join("target").join("scratch").join(format!("{prop}-{}-{}", tier.as_str(), std::process::id()));
    let _ = std::fs::remove_dir_all(&scratch);
    if let Err(e) = std::fs::create_dir_all(&scratch) {
        eprintln!("HARNESS-ERROR: cannot create scratch dir: {e}");
        return 2;
    }
    let trace = std::env::var_os("KSIM_TRACE").is_some();
    let mut results: Vec<StageResult> = Vec::new();
    for st in &stages {
        let r = run_stage(prop, tier, seed, st, &scratch, trace);
        if let Some(e) = &r.harness_error {
            eprintln!("HARNESS-ERROR: {e}");
            let _ = std::fs::remove_dir_all(&scratch);
            return 2;
        }
        println!(
            "  stage world={} runs={} steps={} nontrivial_runs={} distinct_states={} violating_runs={}",
            r.world, r.runs, r.steps, r.nontrivial_runs, r.states.len(), r.violating_runs
        );
        results.push(r);
    }
    if trace {
        let mut h = 0u64;
        for r in &results {
            h = h.wrapping_add(r.trace_hash);
        }
        println!("TRACE-HASH {h:016x}");
    }

    // ---- extra (non-batch) stages: fault sweep, Miri
    let extra = crate::registry::extra_stages(prop, tier, seed, &scratch);
    if let Some(e) = &extra.harness_error {
        eprintln!("HARNESS-ERROR: {e}");
        let _ = std::fs::remove_dir_all(&scratch);
        return 2;
    }

    // ---- regression replays: minimised plans of defects that were repaired (known_findings.json
    // "fixed" entries). A fixed entry suppresses nothing: if the violation returns, it is reported.
    let exe = std::env::current_exe().unwrap();
    let mut regressions_run = 0u64;
    let mut regression_hits: Vec<(String, Violation)> = Vec::new();
    if let Ok(rd) = std::fs::read_dir(root.join("regressions")) {
        let mut files: Vec<PathBuf> = rd.filter_map(|e| e.ok()).map(|e| e.path()).collect();
        files.sort();
        for f in files {
            let name = f.file_name().and_then(|n| n.to_str()).unwrap_or("").to_string();
            if !name.starts_with(&format!("{prop}-")) || !name.ends_with(".json") {
                continue;
            }
            regressions_run += 1;
            let out = Command::new(&exe).arg("replay").arg(&f).arg("--json").stdin(Stdio::null()).stderr(Stdio::null()).output();
            match out {
                Ok(o) => match o.status.code() {
                    Some(0) => {}
                    Some(1) => {
                        let v = serde_json::from_slice::<Violation>(&o.stdout).unwrap_or_else(|_| viol("unknown", 0, String::new()));
                        regression_hits.push((f.display().to_string(), v));
                    }
                    Some(_) => {
                        eprintln!("HARNESS-ERROR: regression replay {} failed to run", f.display());
                        return 2;
                    }
                    None => regression_hits.push((f.display().to_string(), viol("process-crash", usize::MAX, "replay died on a signal".into()))),
                },
                Err(e) => {
                    eprintln!("HARNESS-ERROR: cannot run regression replay: {e}");
                    return 2;
                }
            }
        }
    }

    // ---- verdict
    let known = load_known();
    let mut all_found: Vec<Found> = results.iter().flat_map(|r| r.found.iter().cloned()).collect();
    all_found.extend(extra.found.iter().cloned());
    let mut exit = 0;
    let mut reported = 0usize;
    for (path, v) in &regression_hits {
        println!("  regression replay fails again: class={} step={} :: {}", v.class, v.step, v.detail);
        println!("VIOLATION property={prop} replay={path}");
        reported += 1;
        exit = 1;
    }
    let mut known_hits: BTreeMap<String, u64> = BTreeMap::new();
    let mut replay_paths: Vec<String> = Vec::new();
    let mut seen_classes: HashSet<String> = HashSet::new();
    for f in &all_found {
        if reported >= 4 {
            break;
        }
        // one report per (world, class): the lowest run index
        let key = format!("{}/{}", f.world, f.violation.class);
        if seen_classes.contains(&key) {
            continue;
        }
        let (case, v, execs, orig_len) = if f.no_minimise {
            (f.case.clone(), f.violation.clone(), 0, 0)
        } else {
            // a candidate plan may itself not terminate: minimise on a thread and give up on it
            let (tx, rx) = std::sync::mpsc::channel();
            let (f2, prop2, scratch2, exe2) = (f.clone(), prop.to_string(), scratch.clone(), exe.clone());
            std::thread::spawn(move || {
                let _ = tx.send(minimise_found(&f2, &prop2, tier, &scratch2, &exe2));
            });
            match rx.recv_timeout(std::time::Duration::from_secs(200)) {
                Ok(x) => x,
                Err(_) => (f.case.clone(), f.violation.clone(), 0, 0),
            }
        };
        // known (open) finding?
        if let Some(k) = known.findings.iter().find(|k| {
            k.status == "open"
                && k.property == prop
                && (k.classes.is_empty() || k.classes.iter().any(|c| *c == v.class))
                && crate::registry::finding_matches(&k.signature, &f.world, &case, &v)
        }) {
            *known_hits.entry(k.what.clone()).or_insert(0) += 1;
            seen_classes.insert(key);
            continue;
        }
        seen_classes.insert(key);
        let replays = root.join("replays");
        let _ = std::fs::create_dir_all(&replays);
        let path = replays.join(format!("{prop}-{}-{}-{}.json", f.world.replace(':', "_"), seed, f.run));
        let rf = ReplayFile {
            format: "ksim-replay-1".into(),
            property: prop.into(),
            world: f.world.clone(),
            verif_seed: seed,
            run: f.run,
            profile: f.profile.clone(),
            case,
            violation: v.clone(),
            minimised: execs > 0,
            original_steps: orig_len,
            minimise_executions: execs,
        };
        if let Err(e) = std::fs::write(&path, serde_json::to_vec_pretty(&rf).unwrap()) {
            eprintln!("HARNESS-ERROR: cannot write replay file: {e}");
            return 2;
        }
        println!("  violation class={} world={} run={} step={} :: {}", v.class, f.world, f.run, v.step, v.detail);
        println!("VIOLATION property={prop} replay={}", path.display());
        replay_paths.push(path.display().to_string());
        reported += 1;
        exit = 1;
    }
    // every open known finding for this property is announced (exit code unaffected)
    for k in known.findings.iter().filter(|k| k.status == "open" && k.property == prop) {
        println!("KNOWN-FINDING: property={prop} {}", k.what);
    }

    // ---- probes stuck at zero => harness error (only meaningful on a clean, full batch)
    let mut stuck: Vec<String> = Vec::new();
    if exit == 0 && std::env::var_os("KSIM_RUNS").is_none() {
        for st in &stages {
            if st.sweep {
                continue;
            }
            let req: &[&str] = with_world!(st.world, W => <W as World>::required_probes(prop));
            let r = results.iter().find(|r| r.world == st.world && !r.sweep).unwrap();
            for p in req {
                if r.probes.get(*p).copied().unwrap_or(0) == 0 {
                    stuck.push(format!("{}:{}", st.world, p));
                }
            }
        }
    }

    // ---- evidence
    let wall = t0.elapsed().as_secs_f64();
    let runs: u64 = results.iter().map(|r| r.runs).sum::<u64>() + extra.evaluations;
    let steps: u64 = results.iter().map(|r| r.steps).sum();
    let mut distinct_nontrivial: u64 = results.iter().map(|r| r.run_fps.len() as u64).sum();
    distinct_nontrivial += extra.distinct_nontrivial;
    let distinct_states: u64 = results.iter().map(|r| r.states.len() as u64).sum();
    let mut probes: BTreeMap<String, u64> = BTreeMap::new();
    let mut faults: BTreeMap<String, u64> = BTreeMap::new();
    let mut profiles: BTreeMap<String, u64> = BTreeMap::new();
    let mut set_sizes: BTreeMap<String, u64> = BTreeMap::new();
    let mut samples: Vec<Value> = Vec::new();
    let mut per_world: Vec<Value> = Vec::new();
    let mut fault_sweep: Value = json!(null);
    let mut sweeps: Vec<Value> = Vec::new();
    for r in &results {
        for (k, v) in &r.probes {
            *probes.entry(k.clone()).or_insert(0) += v;
        }
        for (k, v) in &r.faults {
            *faults.entry(k.clone()).or_insert(0) += v;
        }
        for (k, v) in &r.profiles {
            *profiles.entry(k.clone()).or_insert(0) += v;
        }
        for (k, s) in &r.sets {
            *set_sizes.entry(k.clone()).or_insert(0) += s.len() as u64;
        }
        for s in r.samples.iter().take(if results.len() > 1 { 1 } else { 3 }) {
            samples.push(s.clone());
        }
        if r.sweep {
            let names: Vec<String> = with_world!(r.world.as_str(), W => <W as World>::sweep_names());
            let total = names.len();
            let shown: Vec<String> = if r.world == "byvalue" { names } else { names.into_iter().take(24).collect() };
            let entry = json!({
                "world": r.world, "cells": total, "cells_executed": r.runs, "violating_cells": r.violating_runs,
                "exhaustive": r.runs == total as u64,
                "cell_names": shown,
                "cell_names_truncated": r.world != "byvalue" && total > 24,
            });
            if r.world == "byvalue" {
                fault_sweep = entry.clone();
            }
            sweeps.push(entry);
        }
        per_world.push(json!({
            "world": r.world, "fault_sweep_stage": r.sweep, "runs": r.runs, "steps": r.steps, "failing_operations": r.fail_ops,
            "nontrivial_runs": r.nontrivial_runs, "distinct_nontrivial_runs": r.run_fps.len(),
            "distinct_states": r.states.len(),
        }));
    }
    for (k, v) in &extra.faults {
        *faults.entry(k.clone()).or_insert(0) += v;
    }
    samples.extend(extra.samples.iter().cloned());
    if samples.is_empty() {
        // no run qualified as non-trivial (tiny KSIM_RUNS): still show what a case looks like
        if let Some(st) = stages.first() {
            let c = with_world!(st.world, W => serde_json::to_value(gen_case::<W>(seed, prop, tier, 0)).unwrap());
            samples.push(json!({"run": 0, "world": st.world, "case": c}));
        }
    }
    let info = crate::registry::prop_info(prop);
    let evidence = json!({
        "property_id": prop,
        "tier": tier.as_str(),
        "seed": seed,
        "level": info.level,
        "wall_s": wall,
        "violations": reported,
        "coverage": {
            "evaluations": runs,
            "distinct_nontrivial": distinct_nontrivial,
            "rule": info.rule,
            "samples": samples,
            "steps": steps,
            "distinct_states": distinct_states,
            "distinct_states_measure": "distinct 64-bit fingerprints of (world, operation kind, abstract pre-state: lengths/offsets/flags/direction, outcome kind) seen by the executor",
            "failing_operations": results.iter().map(|r| r.fail_ops).sum::<u64>(),
            "nontrivial_runs": results.iter().map(|r| r.nontrivial_runs).sum::<u64>(),
            "violating_runs": results.iter().map(|r| r.violating_runs).sum::<u64>(),
            "faults_fired": faults,
            "probes": probes,
            "measured_sets": set_sizes,
            "per_world": per_world,
            "fault_sweep": fault_sweep,
            "sweeps": sweeps,
            "profiles": profiles,
            "runs_per_hour": if wall > 0.0 { (runs as f64 / wall * 3600.0) as u64 } else { 0 },
            "simulated_time": "not applicable: konst has no clock; logical steps are reported instead",
            "real_vs_stub": info.real_vs_stub,
            "extra": extra.report,
            "exhaustive": false,
            "known_findings_hit": known_hits,
            "regression_replays_run": regressions_run,
            "replays": replay_paths,
            "probes_stuck_at_zero": stuck,
        },
        "assumptions": info.assumptions,
    });
    let evdir = root.join("evidence");
    let _ = std::fs::create_dir_all(&evdir);
    let evpath = evdir.join(format!("{prop}.json"));
    let mut f = match std::fs::File::create(&evpath) {
        Ok(f) => f,
        Err(e) => {
            eprintln!("HARNESS-ERROR: cannot write evidence: {e}");
            return 2;
        }
    };
    let _ = f.write_all(serde_json::to_string_pretty(&evidence).unwrap().as_bytes());
    let _ = f.write_all(b"\n");
    let _ = std::fs::remove_dir_all(&scratch);

    println!(
        "ksim: {prop} {}: {} runs, {} steps, {} distinct non-trivial runs, {} distinct states, {:.1}s -> {}",
        tier.as_str(),
        runs,
        steps,
        distinct_nontrivial,
        distinct_states,
        wall,
        if exit == 0 { "held on everything explored" } else { "VIOLATED" }
    );
    if exit == 0 && !stuck.is_empty() {
        eprintln!("HARNESS-ERROR: reach probes stuck at zero (the workload must change): {stuck:?}");
        return 2;
    }
    exit
}

#[derive(Default)]
pub struct ExtraResult {
    pub found: Vec<Found>,
    pub evaluations: u64,
    pub distinct_nontrivial: u64,
    pub faults: BTreeMap<String, u64>,
    pub samples: Vec<Value>,
    pub report: Value,
    pub harness_error: Option<String>,
}
