//! Miri tier: the same plans, executed by `cargo +nightly miri run`. Miri is the oracle for the
//! part of C01 that no value comparison can see (out-of-bounds pointer arithmetic, reads of
//! uninitialised memory, invalid char/bool/reference, double drop of a Drop value, dangling
//! borrows). Seeds and run ranges travel through argv only.

use crate::kernel::*;
use crate::registry::with_world;
use crate::runner::{gen_case, ExtraResult, Found};
use serde_json::{json, Value};
use std::path::{Path, PathBuf};
use std::process::{Command, Stdio};
use std::time::Instant;

#[derive(Clone, Debug)]
pub struct Segment {
    pub world: &'static str,
    pub from: u64,
    pub to: u64,
    pub sweep: bool,
    /// sweep segments only: execute cells with index % stride == offset (1 = all)
    pub stride: u64,
    pub offset: u64,
    /// skip the cells over 33-element arrays (quick tier)
    pub light: bool,
}

fn sim_dir() -> PathBuf {
    crate::runner::verif_root().join("sim")
}

pub fn miri_command() -> Command {
    let mut c = Command::new("cargo");
    c.arg("+nightly")
        .arg("miri")
        .arg("run")
        .arg("--offline")
        .arg("-q")
        .arg("--")
        .current_dir(sim_dir())
        .env("CARGO_TARGET_DIR", crate::runner::verif_root().join("target").join("miri"))
        .env("CARGO_NET_OFFLINE", "true")
        // leaks are not UB; isolation stays on (nothing but argv and stdout is used)
        .env("MIRIFLAGS", "-Zmiri-ignore-leaks")
        .stdin(Stdio::null());
    c
}

/// builds the simulator for Miri (no-op when fresh)
pub fn ensure_built() -> Result<(), String> {
    let out = miri_command().arg("noop").output().map_err(|e| format!("cannot start cargo miri: {e}"))?;
    if !out.status.success() {
        return Err(format!(
            "building the simulator under Miri failed: {}",
            String::from_utf8_lossy(&out.stderr).lines().filter(|l| l.starts_with("error")).take(5).collect::<Vec<_>>().join(" | ")
        ));
    }
    Ok(())
}

/// in-process multi-segment batch (the `miri-multi` subcommand)
pub fn miri_multi(prop: &str, seed: u64, segs: &[String]) -> i32 {
    for s in segs {
        let parts: Vec<&str> = s.split(':').collect();
        if parts.len() < 3 {
            eprintln!("bad segment {s}");
            return 2;
        }
        let (world, from, to) = (parts[0], parts[1].parse::<u64>().unwrap_or(0), parts[2].parse::<u64>().unwrap_or(0));
        let sweep = parts.get(3) == Some(&"sweep");
        let stride: u64 = parts.get(4).and_then(|x| x.parse().ok()).unwrap_or(1);
        let offset: u64 = parts.get(5).and_then(|x| x.parse().ok()).unwrap_or(0);
        let light = parts.get(6) == Some(&"light");
        println!("SEG {world} {}", if sweep { "sweep" } else { "batch" });
        let code = with_world!(world, W => crate::runner::miri_batch::<W>(prop, seed, from, to, sweep, stride, offset, light));
        if code != 0 {
            return code;
        }
    }
    println!("ALLDONE");
    0
}

struct JobOut {
    runs: u64,
    steps: u64,
    found: Vec<Found>,
    /// (world, sweep, run, first error lines) if the interpreter aborted
    abort: Option<(String, bool, u64, String)>,
    harness_error: Option<String>,
}

fn parse_job(stdout: &str, stderr: &str, success: bool) -> JobOut {
    let mut jo = JobOut { runs: 0, steps: 0, found: Vec::new(), abort: None, harness_error: None };
    let mut world = String::new();
    let mut sweep = false;
    let mut last_run: Option<u64> = None;
    let mut all_done = false;
    for line in stdout.lines() {
        if let Some(r) = line.strip_prefix("SEG ") {
            let mut it = r.split(' ');
            world = it.next().unwrap_or("").to_string();
            sweep = it.next() == Some("sweep");
            last_run = None;
        } else if let Some(r) = line.strip_prefix("RUN ") {
            last_run = r.trim().parse().ok();
        } else if let Some(r) = line.strip_prefix("FOUND ") {
            if let Ok(f) = serde_json::from_str::<Found>(r) {
                jo.found.push(f);
            }
        } else if let Some(r) = line.strip_prefix("DONE ") {
            let mut it = r.split(' ');
            jo.runs += it.next().and_then(|x| x.parse::<u64>().ok()).unwrap_or(0);
            jo.steps += it.next().and_then(|x| x.parse::<u64>().ok()).unwrap_or(0);
        } else if line == "ALLDONE" {
            all_done = true;
        }
    }
    if !success || !all_done {
        let errs: Vec<&str> = stderr.lines().filter(|l| l.starts_with("error") || l.contains("Undefined Behavior")).take(4).collect();
        let msg = if errs.is_empty() { stderr.lines().rev().take(6).collect::<Vec<_>>().join(" | ") } else { errs.join(" | ") };
        match last_run {
            Some(r) if stderr.contains("Undefined Behavior") || stderr.contains("error:") => jo.abort = Some((world, sweep, r, msg)),
            _ => jo.harness_error = Some(format!("Miri job failed outside a run: {msg}")),
        }
    }
    jo
}

/// Executes one case under Miri (`replay --json`); Some(violation) if it fails there.
pub fn exec_in_miri(world: &str, prop: &str, case: &Value, scratch: &Path) -> Option<Violation> {
    let f = scratch.join(format!("miri-cand-{}.json", std::process::id()));
    let rf = ReplayFile {
        format: "ksim-replay-1".into(),
        property: prop.into(),
        world: world.to_string(),
        verif_seed: 0,
        run: 0,
        profile: "miri".into(),
        case: case.clone(),
        violation: viol("candidate", 0, String::new()),
        minimised: false,
        original_steps: 0,
        minimise_executions: 0,
    };
    std::fs::write(&f, serde_json::to_vec(&rf).ok()?).ok()?;
    let mut cmd = miri_command();
    // the replay file has to be read: isolation off for this invocation only
    cmd.env("MIRIFLAGS", "-Zmiri-ignore-leaks -Zmiri-disable-isolation");
    let out = cmd.arg("replay").arg(&f).arg("--json").output().ok()?;
    let stderr = String::from_utf8_lossy(&out.stderr);
    match out.status.code() {
        Some(0) => None,
        Some(1) if !stderr.contains("Undefined Behavior") => serde_json::from_slice::<Violation>(&out.stdout).ok(),
        _ => {
            if stderr.contains("Undefined Behavior") {
                let msg: Vec<&str> = stderr.lines().filter(|l| l.contains("Undefined Behavior")).take(2).collect();
                Some(viol("miri-undefined-behavior", usize::MAX, msg.join(" | ")))
            } else {
                None
            }
        }
    }
}

pub fn run_miri_tier(prop: &str, seed: u64, segments: Vec<Segment>, jobs: usize) -> ExtraResult {
    let t0 = Instant::now();
    let mut res = ExtraResult { report: json!({}), ..Default::default() };
    if let Err(e) = ensure_built() {
        res.harness_error = Some(e);
        return res;
    }
    // cut the segments into pieces and deal them round-robin so that every job gets a similar mix
    let mut pieces: Vec<Segment> = Vec::new();
    for s in &segments {
        let n = s.to - s.from;
        let per = ((n + jobs as u64 - 1) / jobs as u64).max(1);
        let mut a = s.from;
        while a < s.to {
            let b = (a + per).min(s.to);
            pieces.push(Segment { world: s.world, from: a, to: b, sweep: s.sweep, stride: s.stride, offset: s.offset, light: s.light });
            a = b;
        }
    }
    let mut per_job: Vec<Vec<String>> = vec![Vec::new(); jobs];
    for (i, p) in pieces.iter().enumerate() {
        per_job[i % jobs].push(format!("{}:{}:{}:{}:{}:{}:{}", p.world, p.from, p.to, if p.sweep { "sweep" } else { "batch" }, p.stride, p.offset, if p.light { "light" } else { "all" }));
    }
    let mut children = Vec::new();
    for segs in per_job.iter().filter(|s| !s.is_empty()) {
        let mut cmd = miri_command();
        cmd.arg("miri-multi").arg(prop).arg(seed.to_string());
        for s in segs {
            cmd.arg(s);
        }
        cmd.stdout(Stdio::piped()).stderr(Stdio::piped());
        match cmd.spawn() {
            Ok(c) => children.push(c),
            Err(e) => {
                res.harness_error = Some(format!("cannot spawn cargo miri: {e}"));
                return res;
            }
        }
    }
    let mut runs = 0u64;
    let mut steps = 0u64;
    let mut aborts = Vec::new();
    for c in children {
        let out = match c.wait_with_output() {
            Ok(o) => o,
            Err(e) => {
                res.harness_error = Some(format!("waiting for cargo miri failed: {e}"));
                return res;
            }
        };
        let jo = parse_job(&String::from_utf8_lossy(&out.stdout), &String::from_utf8_lossy(&out.stderr), out.status.success());
        if let Some(e) = jo.harness_error {
            res.harness_error = Some(e);
            return res;
        }
        runs += jo.runs;
        steps += jo.steps;
        res.found.extend(jo.found);
        if let Some(a) = jo.abort {
            aborts.push(a);
        }
    }
    for (world, sweep, run, msg) in aborts {
        let case = if sweep {
            with_world!(world.as_str(), W => serde_json::to_value(<W as World>::sweep_case(run)).unwrap())
        } else {
            with_world!(world.as_str(), W => serde_json::to_value(gen_case::<W>(seed, prop, Tier::Quick, run)).unwrap())
        };
        res.found.push(Found {
            no_minimise: false,
            run,
            world: format!("miri:{world}"),
            profile: "miri".into(),
            case,
            violation: viol("miri-undefined-behavior", usize::MAX, msg),
        });
    }
    res.evaluations = runs;
    let sweep_cells: u64 = segments.iter().filter(|s| s.sweep).map(|s| (s.from..s.to).filter(|r| r % s.stride.max(1) == s.offset % s.stride.max(1)).count() as u64).sum();
    res.report = json!({
        "miri": {
            "runs_under_miri": runs,
            "steps_under_miri": steps,
            "fault_sweep_cells_under_miri": sweep_cells,
            "segments": segments.iter().map(|s| json!({"world": s.world, "from": s.from, "to": s.to, "sweep": s.sweep, "stride": s.stride, "offset": s.offset, "skips_N33_cells": s.light})).collect::<Vec<_>>(),
            "flags": "-Zmiri-ignore-leaks (isolation on)",
            "wall_s": t0.elapsed().as_secs_f64(),
            "ub_reports": res.found.iter().filter(|f| f.violation.class == "miri-undefined-behavior").count(),
        }
    });
    res
}
