//! ksim — deterministic simulation of konst's stateful handles (iterators, Parser, by-value
//! containers) against reference models, with fault injection, minimisation and replay.

mod iterworld;
mod kernel;
mod ledger;
mod miri;
mod prng;
mod registry;
mod runner;
mod worlds;

use kernel::Tier;
use registry::with_world;
use std::path::PathBuf;

fn parse_tier(s: Option<&String>) -> Tier {
    let env = std::env::var("VERIF_TIER").ok();
    match s.map(|s| s.as_str()).or(env.as_deref()) {
        Some("thorough") => Tier::Thorough,
        _ => Tier::Quick,
    }
}

fn main() {
    let args: Vec<String> = std::env::args().collect();
    let code = match args.get(1).map(|s| s.as_str()) {
        Some("check") => {
            let prop = args.get(2).expect("usage: ksim check <property> [quick|thorough]");
            runner::cmd_check(prop, parse_tier(args.get(3)))
        }
        Some("worker") => {
            // worker <world> <prop> <tier> <seed> <from> <to> <out> [--careful] [--trace]
            let world = args[2].as_str();
            let prop = args[3].as_str();
            let tier = parse_tier(args.get(4));
            let seed: u64 = args[5].parse().unwrap();
            let from: u64 = args[6].parse().unwrap();
            let to: u64 = args[7].parse().unwrap();
            let out = PathBuf::from(&args[8]);
            let careful = args.iter().any(|a| a == "--careful");
            let trace = args.iter().any(|a| a == "--trace");
            let sweep = args.iter().any(|a| a == "--sweep");
            with_world!(world, W => runner::worker::<W>(prop, tier, seed, from, to, &out, careful, trace, sweep))
        }
        Some("miri-batch") => {
            // miri-batch <world> <prop> <seed> <from> <to> [--sweep]: in-process, no files; run under
            // `cargo +nightly miri run`. Prints RUN <i> before each run so that an abort can be located.
            let world = args[2].as_str();
            let prop = args[3].as_str();
            let seed: u64 = args[4].parse().unwrap();
            let from: u64 = args[5].parse().unwrap();
            let to: u64 = args[6].parse().unwrap();
            let sweep = args.iter().any(|a| a == "--sweep");
            with_world!(world, W => runner::miri_batch::<W>(prop, seed, from, to, sweep, 1, 0, false))
        }
        Some("noop") => 0,
        Some("minimise-inproc") => runner::cmd_minimise_inproc(args.get(2).expect("usage: ksim minimise-inproc <job.json>")),
        Some("miri-multi") => {
            // miri-multi <prop> <seed> <world:from:to[:sweep]>...
            let prop = args[2].as_str();
            let seed: u64 = args[3].parse().unwrap();
            miri::miri_multi(prop, seed, &args[4..])
        }
        Some("replay") => {
            let path = args.get(2).expect("usage: ksim replay <file>");
            runner::cmd_replay(path, args.iter().any(|a| a == "--json"))
        }
        Some("gen") => {
            // gen <world> <prop> <tier> <run>: print the planned case (debugging aid)
            let world = args[2].as_str();
            let prop = args[3].as_str();
            let tier = parse_tier(args.get(4));
            let run: u64 = args[5].parse().unwrap();
            let v = with_world!(world, W => serde_json::to_value(runner::gen_case::<W>(runner::verif_seed(), prop, tier, run)).unwrap());
            println!("{}", serde_json::to_string_pretty(&v).unwrap());
            0
        }
        _ => {
            eprintln!("usage: ksim check <property> [quick|thorough] | replay <file> | gen <world> <prop> <tier> <run>");
            2
        }
    };
    std::process::exit(code);
}
