//! World F: the by-value containers and macros under faults (C15, C11, C01).
//!
//! Executor: every planned operation is performed on real konst objects (ArrayConsumer,
//! ArrayBuilder, map_!/from_fn_!/map!/from_fn!, destructure!) holding instrumented tokens,
//! inside a panic guard, with faults armed through the ledger; the model says what must be
//! observed; after every step the drop ledger must agree with the model's allowed drop count
//! of every token ever created.

use super::byvalue_model::*;
use super::byvalue_ops::*;
use crate::kernel::*;
use crate::ledger::{self, Tok};
use crate::prng::{mix, Rng};
use crate::{conv_any, new_any, on_any};
use konst::array::{ArrayBuilder, ArrayConsumer};
use std::mem::ManuallyDrop;

pub struct ByValueWorld;

enum Obj {
    Arr(AnyArr),
    Cons(AnyCons),
    Build(AnyBuild),
}

const ALL: &[&str] = &["C15", "C11", "C01"];
const CONS: &[&str] = &["C15"];
const BUILD: &[&str] = &["C15", "C11"];
const MACRO_NEW: &[&str] = &["C15", "C11"];
const MACRO_OLD: &[&str] = &["C11"];
const LEDGER_UB: &[&str] = &["C15", "C01"];
const LEDGER_LEAK: &[&str] = &["C15"];

struct FW<'c> {
    m: Model,
    objs: Vec<Option<Obj>>,
    held: Vec<Tok>,
    ctx: &'c mut Ctx,
    step: usize,
}

/// internal: stop the run without raising (the violated oracle belongs to another property)
const STOP: &str = "__stop";

fn stop() -> Violation {
    viol(STOP, 0, String::new())
}

impl<'c> FW<'c> {
    fn fail<T>(&self, props: &[&str], class: &str, detail: String) -> Res<T> {
        if self.ctx.wants_any(props) {
            Err(viol(class, self.step, detail))
        } else {
            Err(stop())
        }
    }

    fn check_ids(&self, props: &[&str], what: &dyn std::fmt::Display, got: &[(u32, bool)], want: &[u32]) -> Res {
        if got.iter().any(|(_, ok)| !ok) {
            // attributed to the properties the observed container belongs to (plus C01: dead memory was read)
            let mut p: Vec<&str> = props.to_vec();
            if !p.contains(&"C01") {
                p.push("C01");
            }
            return self.fail(&p, "dead-slot", format!("{what}: a slot does not hold a live, bit-for-bit intact token: {:?}", got));
        }
        let g: Vec<u32> = got.iter().map(|x| x.0).collect();
        if g != want {
            return self.fail(props, "content-mismatch", format!("{what}: holds tokens {:?}, the model says {:?}", g, want));
        }
        Ok(())
    }

    fn check_parents(&self, props: &[&str], what: &dyn std::fmt::Display, ids: &[u32], parents: &[u32]) -> Res {
        let got: Vec<Option<u32>> = ledger::with(|l| ids.iter().map(|i| l.parent.get(*i as usize).copied().flatten()).collect());
        let want: Vec<Option<u32>> = parents.iter().map(|p| Some(*p)).collect();
        if got != want {
            return self.fail(props, "clone-source-mismatch", format!("{what}: clones {:?} were made from {:?}, expected from {:?}", ids, got, parents));
        }
        Ok(())
    }

    fn ledger_check(&self, what: &dyn std::fmt::Display) -> Res {
        let (inv, bad, n, viol_id) = ledger::with(|l| {
            let mut v: Option<(usize, u32, (u32, u32))> = None;
            for (i, d) in l.drops.iter().enumerate() {
                if let Some((lo, hi)) = self.m.exp.get(i) {
                    if d < lo || d > hi {
                        v = Some((i, *d, (*lo, *hi)));
                        break;
                    }
                }
            }
            (l.invalid_drops, l.payload_bad, l.drops.len(), v)
        });
        if inv > 0 {
            return self.fail(LEDGER_UB, "invalid-drop", format!("{what}: {inv} drop(s) of memory that is not a live token"));
        }
        if bad > 0 {
            return self.fail(LEDGER_UB, "payload-mismatch", format!("{what}: a token was dropped with altered payload (not bit-for-bit unchanged)"));
        }
        if n != self.m.next_id as usize {
            return self.fail(BUILD, "token-count-mismatch", format!("{what}: {n} tokens were created so far, the model expects {}", self.m.next_id));
        }
        if let Some((id, d, (lo, hi))) = viol_id {
            if d > hi && d >= 2 {
                return self.fail(LEDGER_UB, "double-drop", format!("{what}: token T{id} dropped {d} times (allowed {lo}..={hi})"));
            } else if d > hi {
                return self.fail(LEDGER_UB, "dropped-while-owned", format!("{what}: token T{id} was dropped although it is still owned (allowed {lo}..={hi})"));
            } else {
                return self.fail(LEDGER_LEAK, "leak", format!("{what}: token T{id} dropped {d} times, must have been dropped {lo} time(s) by now (never leaked on a completing path)"));
            }
        }
        Ok(())
    }

    fn kind_of(op: &FOp) -> Option<Kind> {
        use FOp::*;
        Some(match op {
            ToConsumer { .. } | ADrop { .. } | MapNew { .. } | MapOld { .. } => Kind::Arr,
            CCloneFrom { .. } | CNext { .. } | CNextBack { .. } | CAsSlice { .. } | CSwap { .. } | CClone { .. } | CDebug { .. } | CAssertEmpty { .. } | CDrop { .. } | CForget { .. } => Kind::Cons,
            BCloneFrom { .. } | BPush { .. } | BObserve { .. } | BSwap { .. } | BClone { .. } | BDebug { .. } | BBuild { .. } | BInferLen { .. } | BDrop { .. } | BForget { .. } => Kind::Build,
            _ => return None,
        })
    }
    fn slot_arg(op: &FOp) -> usize {
        use FOp::*;
        match op {
            ToConsumer { o } | CNext { o } | CNextBack { o } | CAsSlice { o } | CSwap { o, .. } | CClone { o, .. } | CDebug { o } | CAssertEmpty { o } | CDrop { o, .. }
            | CForget { o } | CCloneFrom { o, .. } | BCloneFrom { o, .. } | BPush { o, .. } | BObserve { o } | BSwap { o, .. } | BClone { o, .. } | BDebug { o } | BBuild { o } | BInferLen { o, .. } | BDrop { o, .. }
            | BForget { o } | ADrop { o, .. } | MapNew { o, .. } | MapOld { o, .. } => *o,
            _ => 0,
        }
    }

    fn expect_panic<T>(&self, props: &[&str], what: &dyn std::fmt::Display, r: Result<T, String>) -> Res {
        match r {
            Err(_) => Ok(()),
            Ok(_) => self.fail(props, "expected-panic-missing", format!("{what}: the operation must panic here but completed")),
        }
    }
    fn expect_ok<T>(&self, what: &dyn std::fmt::Display, r: Result<T, String>) -> Res<T> {
        match r {
            Ok(x) => Ok(x),
            Err(m) => self.fail(ALL, "unexpected-panic", format!("{what}: panicked: {m}")),
        }
    }

    fn do_op(&mut self, op: &FOp) -> Res {
        use FOp::*;
        let slot = Self::kind_of(op).and_then(|k| self.m.resolve(k, Self::slot_arg(op)));
        let held_before = self.m.held.len();
        let cf_src = match (op, slot) {
            (CCloneFrom { c, .. }, Some(d)) => self.m.clone_from_source(Kind::Cons, d, *c),
            (BCloneFrom { c, .. }, Some(d)) => self.m.clone_from_source(Kind::Build, d, *c),
            _ => None,
        };
        let exp = self.m.apply(op);
        if exp == Exp::Skip {
            return Ok(());
        }
        let what = Lazy(|| format!("{op:?}"));
        let what: &dyn std::fmt::Display = &what;
        let sid = mix(op.kind_id(), (self.m.live_objs() as u64) | ((self.m.held.len().min(15) as u64) << 4));
        let changed = !matches!(op, CAsSlice { .. } | BObserve { .. } | CDebug { .. } | BDebug { .. } | BInferLen { .. });
        let outcome_id: u64 = match &exp {
            Exp::Panics => 1,
            Exp::EarlyReturn => 2,
            Exp::Taken(None) => 3,
            _ => 0,
        };
        self.ctx.cov.step(mix(sid, outcome_id), changed);
        if matches!(exp, Exp::Panics | Exp::EarlyReturn | Exp::Taken(None)) {
            self.ctx.cov.flag(F_FAILOP);
        }
        self.ctx.log(|| format!("{}:{what}:{:?}", self.step, exp));

        match op {
            NewArray { n } => {
                let a = self.expect_ok(what, guard(|| new_any!(AnyArr, *n, fresh_array())))?;
                let Exp::NewObj { ids, .. } = &exp else { unreachable!() };
                let got = on_any!(AnyArr, &a, |x| ids_of(x.as_slice()));
                self.check_ids(ALL, what, &got, ids)?;
                self.objs.push(Some(Obj::Arr(a)));
            }
            ToConsumer { .. } => {
                let s = slot.unwrap();
                let Some(Obj::Arr(a)) = self.objs[s].take() else { return self.fail(ALL, "harness-desync", what.to_string()) };
                if matches!(a, AnyArr::V0(_)) {
                    self.ctx.cov.probe("consumer-of-empty-array");
                }
                let c = self.expect_ok(what, guard(move || conv_any!(AnyArr, AnyCons, a, |x| ArrayConsumer::new(x))))?;
                self.objs[s] = Some(Obj::Cons(c));
            }
            EmptyConsumer { n } => {
                let c = self.expect_ok(what, guard(|| new_any!(AnyCons, *n, empty_consumer())))?;
                self.objs.push(Some(Obj::Cons(c)));
            }
            CNext { .. } | CNextBack { .. } => {
                let s = slot.unwrap();
                let front = matches!(op, CNext { .. });
                let Some(Obj::Cons(c)) = self.objs[s].as_mut() else { return self.fail(ALL, "harness-desync", what.to_string()) };
                let r = guard(|| on_any!(AnyCons, c, |x| if front { x.next() } else { x.next_back() }));
                let r: Option<ManuallyDrop<Tok>> = self.expect_ok(what, r)?;
                let Exp::Taken(want) = exp else { unreachable!() };
                match (r, want) {
                    (None, None) => {}
                    (Some(t), want) => {
                        let t = ManuallyDrop::into_inner(t);
                        let (id, ok) = (t.id, t.intact());
                        // the caller now owns it (kept even on a mismatch so that it is dropped once)
                        self.held.push(t);
                        if !ok {
                            return self.fail(LEDGER_UB, "dead-slot", format!("{what}: handed out memory that is not a live, intact token"));
                        }
                        if want != Some(id) {
                            return self.fail(CONS, "taken-wrong-element", format!("{what}: handed out T{id}, the model says {:?}", want));
                        }
                    }
                    (None, Some(w)) => return self.fail(CONS, "taken-wrong-element", format!("{what}: returned None, the model says T{w}")),
                }
            }
            CAsSlice { .. } => {
                let s = slot.unwrap();
                let Some(Obj::Cons(c)) = self.objs[s].as_ref() else { return self.fail(ALL, "harness-desync", what.to_string()) };
                let got = self.expect_ok(what, guard(|| on_any!(AnyCons, c, |x| ids_of(x.as_slice()))))?;
                let Exp::Slice(want) = &exp else { unreachable!() };
                self.check_ids(CONS, what, &got, want)?;
            }
            CSwap { i, j, .. } | BSwap { i, j, .. } => {
                let s = slot.unwrap();
                let r = match self.objs[s].as_mut() {
                    Some(Obj::Cons(c)) => guard(|| on_any!(AnyCons, c, |x| { let sl = x.as_mut_slice(); let l = sl.len(); sl.swap(i % l, j % l); })),
                    Some(Obj::Build(b)) => guard(|| on_any!(AnyBuild, b, |x| { let sl = x.as_mut_slice(); let l = sl.len(); sl.swap(i % l, j % l); })),
                    _ => return self.fail(ALL, "harness-desync", what.to_string()),
                };
                self.expect_ok(what, r)?;
            }
            CClone { fault, .. } | BClone { fault, .. } => {
                let s = slot.unwrap();
                if *fault > 0 {
                    ledger::with(|l| l.clone_cd = Some(*fault));
                }
                let is_c = matches!(op, CClone { .. });
                let props = if is_c { CONS } else { BUILD };
                let r: Result<Obj, String> = match self.objs[s].as_ref() {
                    Some(Obj::Cons(c)) => guard(|| Obj::Cons(conv_any!(AnyCons, AnyCons, c, |x| x.clone()))),
                    Some(Obj::Build(b)) => guard(|| Obj::Build(conv_any!(AnyBuild, AnyBuild, b, |x| x.clone()))),
                    _ => return self.fail(ALL, "harness-desync", what.to_string()),
                };
                let (fired, _) = ledger::disarm();
                if fired {
                    self.ctx.cov.fault("panic-clone");
                }
                match &exp {
                    Exp::Panics => {
                        self.expect_panic(props, what, r)?;
                        // the source must be untouched
                    }
                    Exp::NewObj { ids, parents } => {
                        let o = self.expect_ok(what, r)?;
                        let got = match &o {
                            Obj::Cons(c) => on_any!(AnyCons, c, |x| ids_of(x.as_slice())),
                            Obj::Build(b) => on_any!(AnyBuild, b, |x| ids_of(x.as_slice())),
                            _ => unreachable!(),
                        };
                        self.objs.push(Some(o));
                        self.check_ids(props, what, &got, ids)?;
                        self.check_parents(props, what, ids, parents.as_ref().unwrap())?;
                        if is_c && held_before > 0 {
                            self.ctx.cov.probe("consumer-clone-after-takes");
                        }
                    }
                    _ => unreachable!(),
                }
            }
            CCloneFrom { .. } | BCloneFrom { .. } => {
                let (d, s2) = (slot.unwrap(), cf_src.unwrap());
                let is_c = matches!(op, CCloneFrom { .. });
                let props = if is_c { CONS } else { BUILD };
                // take the destination out so that source and destination can be borrowed together
                let Some(mut dst) = self.objs[d].take() else { return self.fail(ALL, "harness-desync", what.to_string()) };
                let r = {
                    let src = self.objs[s2].as_ref();
                    guard(|| match (&mut dst, src) {
                        (Obj::Cons(a), Some(Obj::Cons(b))) => {
                            macro_rules! same_n {
                                ($($V:ident),*) => { match (a, b) { $( (AnyCons::$V(a), AnyCons::$V(b)) => a.clone_from(b), )* _ => {} } };
                            }
                            same_n!(V0, V1, V2, V3, V5, V8, V33)
                        }
                        (Obj::Build(a), Some(Obj::Build(b))) => {
                            macro_rules! same_n {
                                ($($V:ident),*) => { match (a, b) { $( (AnyBuild::$V(a), AnyBuild::$V(b)) => a.clone_from(b), )* _ => {} } };
                            }
                            same_n!(V0, V1, V2, V3, V5, V8, V33)
                        }
                        _ => {}
                    })
                };
                let got = match &dst {
                    Obj::Cons(c) => on_any!(AnyCons, c, |x| ids_of(x.as_slice())),
                    Obj::Build(b) => on_any!(AnyBuild, b, |x| ids_of(x.as_slice())),
                    _ => Vec::new(),
                };
                self.objs[d] = Some(dst);
                self.expect_ok(what, r)?;
                let Exp::NewObj { ids, parents } = &exp else { unreachable!() };
                self.check_ids(props, what, &got, ids)?;
                self.check_parents(props, what, ids, parents.as_ref().unwrap())?;
                self.ctx.cov.probe("clone_from-into-nonempty-destination");
            }
            CDebug { .. } | BDebug { .. } => {
                let s = slot.unwrap();
                let r = match self.objs[s].as_ref() {
                    Some(Obj::Cons(c)) => guard(|| on_any!(AnyCons, c, |x| format!("{:?}", x))),
                    Some(Obj::Build(b)) => guard(|| on_any!(AnyBuild, b, |x| format!("{:?}", x))),
                    _ => return self.fail(ALL, "harness-desync", what.to_string()),
                };
                // Debug must not panic and must not move or drop anything (ledger check below); its
                // exact text is not part of any property and is not compared
                let _got = self.expect_ok(what, r)?;
                let Exp::Debug(_) = &exp else { unreachable!() };
            }
            CAssertEmpty { .. } => {
                let s = slot.unwrap();
                let Some(Obj::Cons(c)) = self.objs[s].take() else { return self.fail(ALL, "harness-desync", what.to_string()) };
                let r = guard(move || on_any!(AnyCons, c, |x| x.assert_is_empty()));
                if exp == Exp::Panics {
                    self.ctx.cov.fault("misuse-assert_is_empty-nonempty");
                    self.expect_panic(CONS, what, r)?;
                } else {
                    self.expect_ok(what, r)?;
                }
            }
            CDrop { fault, .. } | BDrop { fault, .. } | ADrop { fault, .. } => {
                let s = slot.unwrap();
                let Some(o) = self.objs[s].take() else { return self.fail(ALL, "harness-desync", what.to_string()) };
                if *fault > 0 {
                    ledger::with(|l| l.drop_cd = Some(*fault));
                }
                let r = guard(move || drop(o));
                let (_, fired) = ledger::disarm();
                if fired {
                    self.ctx.cov.fault("panic-drop");
                    if !matches!(op, ADrop { .. }) {
                        self.ctx.cov.probe("panic-drop-inside-container-drop");
                    }
                }
                if exp == Exp::Panics {
                    self.expect_panic(ALL, what, r)?;
                } else {
                    self.expect_ok(what, r)?;
                    self.ctx.cov.fault("early-drop");
                }
            }
            CForget { .. } | BForget { .. } => {
                let s = slot.unwrap();
                let Some(o) = self.objs[s].take() else { return self.fail(ALL, "harness-desync", what.to_string()) };
                std::mem::forget(o);
                self.ctx.cov.fault("forget");
            }
            NewBuilder { n } => {
                let b = self.expect_ok(what, guard(|| new_any!(AnyBuild, *n, new_builder())))?;
                self.objs.push(Some(Obj::Build(b)));
            }
            BPush { t, .. } => {
                let s = slot.unwrap();
                let tok = self.held.remove(t % self.held.len());
                let Some(Obj::Build(b)) = self.objs[s].as_mut() else { return self.fail(ALL, "harness-desync", what.to_string()) };
                let r = guard(move || on_any!(AnyBuild, b, |x| x.push(tok)));
                if exp == Exp::Panics {
                    self.ctx.cov.fault("misuse-push-full");
                    self.ctx.cov.probe("builder-push-full");
                    self.expect_panic(BUILD, what, r)?;
                } else {
                    self.expect_ok(what, r)?;
                }
            }
            BObserve { .. } => {
                let s = slot.unwrap();
                let Some(Obj::Build(b)) = self.objs[s].as_ref() else { return self.fail(ALL, "harness-desync", what.to_string()) };
                let r = guard(|| on_any!(AnyBuild, b, |x| (x.len(), x.is_full(), ids_of(x.as_slice()))));
                let (len, full, got) = self.expect_ok(what, r)?;
                let Exp::BuilderObs { len: wl, full: wf, ids } = &exp else { unreachable!() };
                if len != *wl || full != *wf {
                    return self.fail(BUILD, "builder-len-mismatch", format!("{what}: len()={len} is_full()={full}, the model says {wl}/{wf}"));
                }
                self.check_ids(BUILD, what, &got, ids)?;
            }
            BBuild { .. } => {
                let s = slot.unwrap();
                let Some(Obj::Build(b)) = self.objs[s].take() else { return self.fail(ALL, "harness-desync", what.to_string()) };
                let r = guard(move || conv_any!(AnyBuild, AnyArr, b, |x| x.build()));
                match &exp {
                    Exp::Panics => {
                        self.ctx.cov.fault("misuse-build-not-full");
                        self.ctx.cov.probe("builder-build-not-full");
                        match r {
                            Err(_) => {}
                            Ok(a) => {
                                // an array with unwritten slots must never reach (or be dropped by) the caller
                                std::mem::forget(a);
                                return self.fail(&["C11", "C15", "C01"], "build-returned-array-when-not-full", format!("{what}: build() returned an array although the builder was not full"));
                            }
                        }
                    }
                    Exp::NewObj { ids, .. } => {
                        let a = self.expect_ok(what, r)?;
                        let got = on_any!(AnyArr, &a, |x| ids_of(x.as_slice()));
                        self.objs[s] = Some(Obj::Arr(a));
                        self.check_ids(BUILD, what, &got, ids)?;
                        self.ctx.cov.probe("builder-built-array-recirculates");
                    }
                    _ => unreachable!(),
                }
            }
            BInferLen { .. } => {
                // the length inference helper must be a no-op on both operands
                let s = slot.unwrap();
                let Some(Obj::Build(b)) = self.objs[s].as_ref() else { return self.fail(ALL, "harness-desync", what.to_string()) };
                for o in self.objs.iter().flatten() {
                    if let Obj::Cons(c) = o {
                        macro_rules! same_n {
                            ($($V:ident),*) => { match (b, c) { $( (AnyBuild::$V(b), AnyCons::$V(c)) => { b.infer_length_from_consumer(c); } )* _ => {} } };
                        }
                        same_n!(V0, V1, V2, V3, V5, V8, V33);
                    }
                }
            }
            MapNew { closure, exit, .. } => {
                let s = slot.unwrap();
                let Some(Obj::Arr(a)) = self.objs[s].take() else { return self.fail(ALL, "harness-desync", what.to_string()) };
                let held = &mut self.held;
                let (cl, ex) = (*closure % N_CLOSURES, *exit);
                // MapOut<N> is size-specific: fold it into Option<AnyArr> inside the guard
                let r: Result<Option<AnyArr>, String> = guard(move || {
                    macro_rules! run {
                        ($($V:ident),*) => { match a { $( AnyArr::$V(x) => match map_new(x, cl, ex, held) { MapOut::Arr(r) => Some(AnyArr::$V(r)), MapOut::Returned => None }, )* } };
                    }
                    run!(V0, V1, V2, V3, V5, V8, V33)
                });
                self.macro_outcome(MACRO_NEW, what, s, false, &exp, r, *exit, "map_")?;
            }
            FromFnNew { n, exit, typed } | FromFnOld { n, exit, typed } => {
                let old = matches!(op, FromFnOld { .. });
                let typed = *typed;
                let ex = *exit;
                let n = *n;
                let r: Result<Option<AnyArr>, String> = guard(move || {
                    macro_rules! run {
                        ($($n:literal $V:ident),*) => { match n { $( $n => match if old { from_fn_old::<$n>(ex, typed) } else { from_fn_new::<$n>(ex, typed) } { MapOut::Arr(r) => Some(AnyArr::$V(r)), MapOut::Returned => None }, )* _ => None } };
                    }
                    run!(0 V0, 1 V1, 2 V2, 3 V3, 5 V5, 8 V8, 33 V33)
                });
                let s = self.objs.len();
                self.macro_outcome(if old { MACRO_OLD } else { MACRO_NEW }, what, s, true, &exp, r, *exit, if old { "from_fn!" } else { "from_fn_" })?;
            }
            MapOld { exit, .. } => {
                let s = slot.unwrap();
                let Some(Obj::Arr(a)) = self.objs[s].as_ref() else { return self.fail(ALL, "harness-desync", what.to_string()) };
                let ex = *exit;
                let r: Result<Option<AnyArr>, String> = guard(move || {
                    macro_rules! run {
                        ($($V:ident),*) => { match a { $( AnyArr::$V(x) => match map_old(x, ex) { MapOut::Arr(r) => Some(AnyArr::$V(r)), MapOut::Returned => None }, )* } };
                    }
                    run!(V0, V1, V2, V3, V5, V8, V33)
                });
                let s2 = self.objs.len();
                self.macro_outcome(MACRO_OLD, what, s2, true, &exp, r, *exit, "map!")?;
                let _ = s;
            }
            Destructure { shape } => {
                let Exp::Destructured { bound, dropped } = &exp else { unreachable!() };
                let arity = bound.len() + dropped.len();
                let toks: Vec<Tok> = self.held.drain(..arity).collect();
                let sh = *shape;
                let r = guard(move || destructure_shape(sh, toks));
                let out = self.expect_ok(what, r)?;
                let got = ids_of(&out);
                self.held.extend(out);
                self.check_ids(CONS, what, &got, bound)?;
                self.ctx.cov.set_insert("destructure_shapes_run", (*shape % N_SHAPES) as u64);
                if !dropped.is_empty() {
                    self.ctx.cov.probe("destructure-underscore-or-rest-dropped-immediately");
                }
                if matches!(shape % N_SHAPES, 6 | 17) {
                    self.ctx.cov.probe("destructure-rest-in-middle");
                }
                if shape % N_SHAPES == 14 {
                    self.ctx.cov.probe("destructure-packed");
                }
            }
            HDrop { t } => {
                let tok = self.held.remove(t % self.held.len());
                let r = guard(move || drop(tok));
                self.expect_ok(what, r)?;
            }
            CopyScenario { n, front, back } => {
                let (n, f, b) = (*n, *front, *back);
                let r = guard(move || {
                    macro_rules! run { ($($n:literal),*) => { match n { $( $n => copy_scenario::<$n>(f, b), )* _ => Ok(()) } }; }
                    run!(0, 1, 2, 3, 5, 8, 33)
                });
                match self.expect_ok(what, r)? {
                    Ok(()) => {}
                    Err(m) => return self.fail(BUILD, "copy-future-mismatch", format!("{what}: {m}")),
                }
            }
            BigScenario { n, front, back, clone } => {
                let (n, f, b, c) = (*n, *front, *back, *clone);
                let r = guard(move || {
                    macro_rules! run { ($($n:literal),*) => { match n { $( $n => big_scenario::<$n>(f, b, c), )* _ => Ok(()) } }; }
                    run!(0, 1, 2, 3, 5, 8, 33)
                });
                match self.expect_ok(what, r)? {
                    Ok(()) => {}
                    Err(m) => return self.fail(BUILD, "big-element-mismatch", format!("{what}: {m}")),
                }
            }
            ZstScenario { n, front, back, clone } => {
                let (n, f, b, c) = (*n, *front, *back, *clone);
                let r = guard(move || {
                    macro_rules! run { ($($n:literal),*) => { match n { $( $n => zst_scenario::<$n>(f, b, c), )* _ => Ok(()) } }; }
                    run!(0, 1, 2, 3, 5, 8, 33)
                });
                match self.expect_ok(what, r)? {
                    Ok(()) => {}
                    Err(m) => return self.fail(BUILD, "zst-count-mismatch", format!("{what}: {m}")),
                }
            }
        }
        self.ledger_check(what)
    }

    /// common verdict for map_!/from_fn_!/map!/from_fn! scenarios
    #[allow(clippy::too_many_arguments)]
    fn macro_outcome(&mut self, props: &[&str], what: &dyn std::fmt::Display, slot: usize, push: bool, exp: &Exp, r: Result<Option<AnyArr>, String>, exit: Exit, name: &'static str) -> Res {
        let fired = !matches!(exp, Exp::NewObj { .. });
        // `continue` in the older macros re-runs the same index: the exit fires although the
        // outcome is the ordinary array
        if let (Exit::Continue(k), Exp::NewObj { ids, .. }) = (exit, exp) {
            if name.ends_with('!') && k >= 1 && (k as usize) <= ids.len() {
                self.ctx.cov.fault(exit.name());
                self.ctx.cov.probe("old-macro-continue-reran-index");
            }
        }
        if fired {
            self.ctx.cov.fault(exit.name());
            match (name, exit) {
                ("map_", Exit::Panic(_)) => self.ctx.cov.probe("map_-panic-mid"),
                ("map_", Exit::Break(_)) => self.ctx.cov.probe("map_-break"),
                ("map_", Exit::Continue(_)) => self.ctx.cov.probe("map_-continue"),
                ("map_", Exit::Return(_)) => self.ctx.cov.probe("map_-return"),
                ("from_fn_", _) => self.ctx.cov.probe("from_fn_-early-exit"),
                ("map!", _) => self.ctx.cov.probe("map-old-early-exit"),
                _ => self.ctx.cov.probe("from_fn-old-early-exit"),
            }
        }
        match (exp, r) {
            (Exp::NewObj { ids, parents }, Ok(Some(a))) => {
                let got = on_any!(AnyArr, &a, |x| ids_of(x.as_slice()));
                if push {
                    self.objs.push(Some(Obj::Arr(a)));
                } else {
                    self.objs[slot] = Some(Obj::Arr(a));
                }
                self.check_ids(props, what, &got, ids)?;
                if let Some(p) = parents {
                    self.check_parents(props, what, ids, p)?;
                }
                Ok(())
            }
            (Exp::NewObj { .. }, Ok(None)) => self.fail(props, "macro-returned-early-without-exit", format!("{what}: returned early although the closure did not exit")),
            (Exp::NewObj { .. }, Err(m)) => self.fail(ALL, "unexpected-panic", format!("{what}: panicked: {m}")),
            (Exp::Panics, Err(_)) => Ok(()),
            (Exp::EarlyReturn, Ok(None)) => Ok(()),
            (Exp::Panics, Ok(None)) | (Exp::EarlyReturn, Err(_)) => {
                // panic vs early return are both "no array handed back"; the exact one is modelled
                self.fail(props, "macro-exit-kind-mismatch", format!("{what}: expected {:?}", exp))
            }
            (_, Ok(Some(a))) => {
                // never hand back an array after an early exit: it would contain an unwritten slot
                std::mem::forget(a);
                self.fail(&["C11", "C15", "C01"], "macro-returned-array-after-early-exit", format!("{what}: the macro handed back an array although the closure exited early ({:?})", exit))
            }
            _ => unreachable!(),
        }
    }
}

fn exec(case: &FCase, ctx: &mut Ctx) -> Res {
    ledger::reset();
    let mut w = FW { m: Model::new(), objs: Vec::new(), held: Vec::new(), ctx, step: 0 };
    let mut result: Res = Ok(());
    for (i, op) in case.plan.iter().enumerate() {
        w.step = i;
        if let Err(v) = w.do_op(op) {
            result = Err(v);
            break;
        }
    }
    ledger::disarm();
    let failed = result.is_err();
    // teardown: everything still owned is dropped exactly once, then the ledger must balance.
    // (After a violation the state may be inconsistent: remaining objects are forgotten instead,
    // so that a corrupted container cannot crash the harness while it reports.)
    if failed {
        for o in w.objs.drain(..) {
            std::mem::forget(o);
        }
        for t in w.held.drain(..) {
            std::mem::forget(t);
        }
    } else {
        w.step = case.plan.len();
        let objs: Vec<Option<Obj>> = w.objs.drain(..).collect();
        let held: Vec<Tok> = w.held.drain(..).collect();
        let r = guard(move || {
            drop(held);
            drop(objs);
        });
        w.m.teardown();
        result = match r {
            Err(m) => w.fail(ALL, "unexpected-panic", format!("teardown panicked: {m}")),
            Ok(()) => w.ledger_check(&"teardown"),
        };
    }
    match result {
        Err(v) if v.class == STOP => Ok(()),
        r => r,
    }
}

impl World for ByValueWorld {
    type Case = FCase;
    const NAME: &'static str = "byvalue";

    fn generate(rng: &mut Rng, cfg: &GenCfg) -> FCase {
        generate(rng, cfg)
    }
    fn execute(case: &FCase, ctx: &mut Ctx) -> Res {
        exec(case, ctx)
    }
    fn shrink(case: &FCase) -> Vec<FCase> {
        let mut out: Vec<FCase> = shrink_list(&case.plan).into_iter().map(|plan| FCase { plan }).collect();
        for (i, op) in case.plan.iter().enumerate() {
            let alt = match op {
                FOp::CNextBack { o } => Some(FOp::CNext { o: *o }),
                FOp::NewArray { n } if *n > 1 => Some(FOp::NewArray { n: NS[NS.iter().position(|x| x == n).unwrap_or(1) - 1] }),
                FOp::NewBuilder { n } if *n > 1 => Some(FOp::NewBuilder { n: NS[NS.iter().position(|x| x == n).unwrap_or(1) - 1] }),
                FOp::CClone { o, fault } if *fault > 1 => Some(FOp::CClone { o: *o, fault: 1 }),
                FOp::CDrop { o, fault } if *fault > 0 => Some(FOp::CDrop { o: *o, fault: 0 }),
                FOp::BDrop { o, fault } if *fault > 0 => Some(FOp::BDrop { o: *o, fault: 0 }),
                FOp::MapNew { o, closure, exit } if *closure != 0 => Some(FOp::MapNew { o: *o, closure: 0, exit: *exit }),
                _ => None,
            };
            if let Some(a) = alt {
                let mut plan = case.plan.clone();
                plan[i] = a;
                out.push(FCase { plan });
            }
        }
        out
    }
    fn plan_len(case: &FCase) -> usize {
        case.plan.len()
    }
    fn required_probes(prop: &str) -> &'static [&'static str] {
        match prop {
            "C15" | "C11" => &[
                "builder-push-full",
                "builder-build-not-full",
                "consumer-clone-after-takes",
                "panic-drop-inside-container-drop",
                "map_-panic-mid",
                "map_-break",
                "map_-continue",
                "map_-return",
                "from_fn_-early-exit",
                "map-old-early-exit",
                "from_fn-old-early-exit",
                "destructure-rest-in-middle",
                "destructure-packed",
                "destructure-underscore-or-rest-dropped-immediately",
                "builder-built-array-recirculates",
            ],
            _ => &[],
        }
    }
    fn case_is_heavy(case: &FCase) -> bool {
        case.plan.iter().any(|op| matches!(op, FOp::NewArray { n } | FOp::NewBuilder { n } | FOp::EmptyConsumer { n } | FOp::FromFnNew { n, .. } | FOp::FromFnOld { n, .. } if *n > 8))
    }
    fn sweep_len() -> u64 {
        sweep_build(&|_| false, false).1
    }
    fn sweep_names() -> Vec<String> {
        sweep_build(&|_| false, true).0.into_iter().map(|(n, _)| n).collect()
    }
    fn sweep_some(indices: &[u64]) -> Vec<(u64, FCase)> {
        let mut idx: Vec<u64> = indices.to_vec();
        idx.sort_unstable();
        idx.dedup();
        let set: std::collections::BTreeSet<u64> = idx.iter().copied().collect();
        let (v, n) = sweep_build(&|i| set.contains(&i), false);
        idx.into_iter().filter(|i| *i < n).zip(v.into_iter().map(|(_, c)| c)).collect()
    }
    fn sweep_case(i: u64) -> Option<FCase> {
        Self::sweep_some(&[i]).into_iter().next().map(|(_, c)| c)
    }
}

#[allow(dead_code)]
fn _assert_types(_: ArrayBuilder<Tok, 1>) {}
