//! World A: konst's slice iterators against `core::slice`'s (C08, C01).

use crate::iterworld::*;
use crate::kernel::*;
use crate::prng::Rng;
use konst::slice as ks;
use serde::{Deserialize, Serialize};
use std::fmt::Debug;
use std::marker::PhantomData;

pub trait Elem: Copy + PartialEq + Debug + 'static {
    const WORLD: &'static str;
    fn make(i: usize) -> Self;
    /// zero-sized element types can also have slices of astronomically large length
    const HUGE_LEN_OK: bool = false;
    fn make_vec(len: usize) -> Vec<Self> {
        (0..len).map(Self::make).collect()
    }
}
impl Elem for u8 {
    const WORLD: &'static str = "slices_u8";
    fn make(i: usize) -> Self {
        i as u8
    }
}
impl Elem for () {
    const WORLD: &'static str = "slices_zst";
    fn make(_: usize) -> Self {}
    const HUGE_LEN_OK: bool = true;
    fn make_vec(len: usize) -> Vec<Self> {
        let mut v: Vec<()> = Vec::new();
        // SAFETY: a Vec of a zero-sized type has capacity usize::MAX and no elements to initialise
        unsafe { v.set_len(len) };
        v
    }
}
/// 3 bytes, alignment 1: a size that is not a power of two
#[derive(Copy, Clone, PartialEq, Debug)]
pub struct Odd([u8; 3]);
impl Elem for Odd {
    const WORLD: &'static str = "slices_odd";
    fn make(i: usize) -> Self {
        Odd([i as u8, (i >> 8) as u8, 0xA5])
    }
}
#[derive(Copy, Clone, PartialEq, Debug)]
pub struct Big {
    a: u64,
    b: u64,
    c: u64,
}
impl Elem for Big {
    const WORLD: &'static str = "slices_big";
    fn make(i: usize) -> Self {
        Big { a: i as u64, b: !(i as u64), c: 0x5a5a_5a5a }
    }
}

#[derive(Serialize, Deserialize, Clone, Copy, Debug, PartialEq)]
pub enum SKind {
    Iter,
    IterViaMacro,
    IterViaMacroRefRef,
    /// `into_iter!(&[T; N])` / `into_iter!(&&[T; N])` for N = len <= 6
    IterViaMacroArray,
    IterViaMacroArrayRefRef,
    Copied,
    Windows,
    Chunks,
    RChunks,
    ChunksExact,
    RChunksExact,
    ArrayChunks,
}
const KINDS: [SKind; 12] = [
    SKind::Iter,
    SKind::IterViaMacro,
    SKind::IterViaMacroRefRef,
    SKind::IterViaMacroArray,
    SKind::IterViaMacroArrayRefRef,
    SKind::Copied,
    SKind::Windows,
    SKind::Chunks,
    SKind::RChunks,
    SKind::ChunksExact,
    SKind::RChunksExact,
    SKind::ArrayChunks,
];

#[derive(Serialize, Deserialize, Clone, Debug)]
pub struct SSetup {
    pub len: usize,
    pub kind: SKind,
    /// window / chunk size, or N (1..=4) for array_chunks
    pub size: usize,
}

#[derive(PartialEq, Debug)]
pub enum SItem<T> {
    /// a sub-slice of the datum: element offset (None = not inside the datum), length
    Sub { off: Option<usize>, len: usize },
    /// a reference to one element
    Elem { off: Option<usize> },
    /// a copied element
    Val(T),
}

fn c_sub<T>(d: &Vec<T>, s: &[T]) -> SItem<T> {
    let off = slice_offset_in(d.as_slice(), s);
    // empty slices carry no elements: only their length is compared
    SItem::Sub { off: if s.is_empty() { Some(0) } else { off }, len: s.len() }
}
fn c_arr<T, const N: usize>(d: &Vec<T>, s: &[T; N]) -> SItem<T> {
    c_sub(d, s.as_slice())
}
fn c_elem<T>(d: &Vec<T>, e: &T) -> SItem<T> {
    SItem::Elem { off: slice_offset_in(d.as_slice(), std::slice::from_ref(e)) }
}
fn c_val<T>(_d: &Vec<T>, v: T) -> SItem<T> {
    SItem::Val(v)
}

pub enum SK<'a, T> {
    Iter(ks::Iter<'a, T>),
    IterRev(ks::IterRev<'a, T>),
    Cop(ks::IterCopied<'a, T>),
    CopRev(ks::IterCopiedRev<'a, T>),
    Win(ks::Windows<'a, T>),
    WinRev(ks::WindowsRev<'a, T>),
    Ch(ks::Chunks<'a, T>),
    ChRev(ks::ChunksRev<'a, T>),
    RCh(ks::RChunks<'a, T>),
    RChRev(ks::RChunksRev<'a, T>),
    ChE(ks::ChunksExact<'a, T>),
    ChERev(ks::ChunksExactRev<'a, T>),
    RChE(ks::RChunksExact<'a, T>),
    RChERev(ks::RChunksExactRev<'a, T>),
    A1(ks::ArrayChunks<'a, T, 1>),
    A1Rev(ks::ArrayChunksRev<'a, T, 1>),
    A2(ks::ArrayChunks<'a, T, 2>),
    A2Rev(ks::ArrayChunksRev<'a, T, 2>),
    A3(ks::ArrayChunks<'a, T, 3>),
    A3Rev(ks::ArrayChunksRev<'a, T, 3>),
    A4(ks::ArrayChunks<'a, T, 4>),
    A4Rev(ks::ArrayChunksRev<'a, T, 4>),
}

macro_rules! with_variants {
    ($mac:ident; $($args:tt)*) => {
        $mac!($($args)*;
            Iter:c_elem, IterRev:c_elem, Cop:c_val, CopRev:c_val,
            Win:c_sub, WinRev:c_sub, Ch:c_sub, ChRev:c_sub, RCh:c_sub, RChRev:c_sub,
            ChE:c_sub, ChERev:c_sub, RChE:c_sub, RChERev:c_sub,
            A1:c_arr, A1Rev:c_arr, A2:c_arr, A2Rev:c_arr, A3:c_arr, A3Rev:c_arr, A4:c_arr, A4Rev:c_arr)
    };
}
macro_rules! gen_step {
    ($k:expr, $d:expr, $method:ident; $($V:ident : $conv:ident),*) => {
        match $k {
            $( SK::$V(it) => it.copy().$method().map(|(x, n)| ($conv($d, x), SK::$V(n))), )*
        }
    };
}
macro_rules! gen_copy {
    ($k:expr; $($V:ident : $conv:ident),*) => {
        match $k {
            $( SK::$V(it) => SK::$V(it.copy()), )*
        }
    };
}

#[derive(Clone)]
pub enum SMI<'a, T> {
    Iter(std::slice::Iter<'a, T>),
    Win(std::slice::Windows<'a, T>),
    Ch(std::slice::Chunks<'a, T>),
    RCh(std::slice::RChunks<'a, T>),
    ChE(std::slice::ChunksExact<'a, T>),
    RChE(std::slice::RChunksExact<'a, T>),
}

#[derive(Clone)]
pub struct SM<'a, T> {
    it: SMI<'a, T>,
    rev: bool,
    kind: SKind,
    size: usize,
}

impl<'a, T: Elem> SM<'a, T> {
    fn step(&mut self, d: &'a Vec<T>, front: bool) -> Option<SItem<T>> {
        let front = front != self.rev;
        let copied = self.kind == SKind::Copied;
        macro_rules! go {
            ($it:expr) => {
                if front {
                    $it.next()
                } else {
                    $it.next_back()
                }
            };
        }
        match &mut self.it {
            SMI::Iter(it) => go!(it).map(|e| if copied { SItem::Val(*e) } else { c_elem(d, e) }),
            SMI::Win(it) => go!(it).map(|s| c_sub(d, s)),
            SMI::Ch(it) => go!(it).map(|s| c_sub(d, s)),
            SMI::RCh(it) => go!(it).map(|s| c_sub(d, s)),
            SMI::ChE(it) => go!(it).map(|s| c_sub(d, s)),
            SMI::RChE(it) => go!(it).map(|s| c_sub(d, s)),
        }
    }
    fn remaining(&self) -> usize {
        match &self.it {
            SMI::Iter(it) => it.len(),
            SMI::Win(it) => it.len(),
            SMI::Ch(it) => it.len(),
            SMI::RCh(it) => it.len(),
            SMI::ChE(it) => it.len(),
            SMI::RChE(it) => it.len(),
        }
    }
}

pub struct SliceFam<T: Elem>(PhantomData<T>);

impl<T: Elem> Fam for SliceFam<T> {
    const WORLD: &'static str = T::WORLD;
    const PROP: &'static str = "C08";
    type Setup = SSetup;
    type Datum = Vec<T>;
    type K<'a> = SK<'a, T>;
    type M<'a> = SM<'a, T>;
    type Item = SItem<T>;

    fn gen_setup(rng: &mut Rng, tier: Tier, _prop: &str) -> SSetup {
        let maxlen = if tier == Tier::Thorough { 40 } else { 12 };
        let len = match rng.below(32) {
            0..=3 => rng.range(0, 2),
            // occasionally long slices (thresholds such as 32/64/128 elements)
            4 => rng.range(30, 70),
            5 => *rng.pick(&[31usize, 32, 33, 63, 64, 65, 127, 128, 129]),
            _ => rng.range(0, maxlen),
        };
        let len = if T::HUGE_LEN_OK && rng.chance(1, 10) { usize::MAX - rng.range(0, 9) } else { len };
        let kind = *rng.pick(&KINDS);
        let size = if kind == SKind::ArrayChunks {
            rng.range(1, 4)
        } else if rng.chance(1, 24) {
            // every size >= 1 is in scope: sizes near usize::MAX must not overflow the arithmetic
            *rng.pick(&[usize::MAX, usize::MAX - 1, usize::MAX / 2 + 1, usize::MAX / 2, (1usize << 32) + 1])
        } else if len > 1000 {
            rng.range(1, 9)
        } else {
            rng.range(1, len + 2)
        };
        SSetup { len, kind, size }
    }

    fn shrink_setup(s: &SSetup) -> Vec<SSetup> {
        let mut out = Vec::new();
        if s.len > 0 {
            out.push(SSetup { len: s.len - 1, ..s.clone() });
            out.push(SSetup { len: s.len / 2, ..s.clone() });
        }
        if s.size > 64 {
            out.push(SSetup { size: s.len + 1, ..s.clone() });
        }
        if s.size > 1 {
            out.push(SSetup { size: s.size - 1, ..s.clone() });
        }
        out
    }

    fn datum(s: &SSetup) -> Vec<T> {
        if s.len > 100_000 && !T::HUGE_LEN_OK {
            // (only reachable through a hand-edited replay file)
            return T::make_vec(0);
        }
        T::make_vec(s.len)
    }

    fn m_new<'a>(s: &SSetup, d: &'a Vec<T>) -> SM<'a, T> {
        let sl = d.as_slice();
        let it = match s.kind {
            SKind::Iter | SKind::IterViaMacro | SKind::IterViaMacroRefRef | SKind::IterViaMacroArray | SKind::IterViaMacroArrayRefRef | SKind::Copied => SMI::Iter(sl.iter()),
            SKind::Windows => SMI::Win(sl.windows(s.size)),
            SKind::Chunks => SMI::Ch(sl.chunks(s.size)),
            SKind::RChunks => SMI::RCh(sl.rchunks(s.size)),
            SKind::ChunksExact | SKind::ArrayChunks => SMI::ChE(sl.chunks_exact(s.size)),
            SKind::RChunksExact => SMI::RChE(sl.rchunks_exact(s.size)),
        };
        SM { it, rev: false, kind: s.kind, size: s.size }
    }

    fn k_new<'a>(s: &SSetup, d: &'a Vec<T>) -> SK<'a, T> {
        let sl: &'a [T] = d.as_slice();
        match s.kind {
            SKind::Iter => SK::Iter(ks::iter(sl)),
            SKind::IterViaMacro => SK::Iter(konst::iter::into_iter!(sl)),
            SKind::IterViaMacroRefRef => SK::Iter(konst::iter::into_iter!(&sl)),
            SKind::IterViaMacroArray | SKind::IterViaMacroArrayRefRef => {
                let rr = s.kind == SKind::IterViaMacroArrayRefRef;
                macro_rules! arr {
                    ($($n:literal),*) => {
                        match sl.len() {
                            $( $n => {
                                let a: &'a [T; $n] = sl.try_into().expect("length checked");
                                if rr { SK::Iter(konst::iter::into_iter!(&a)) } else { SK::Iter(konst::iter::into_iter!(a)) }
                            } )*
                            _ => SK::Iter(konst::iter::into_iter!(sl)),
                        }
                    };
                }
                arr!(0, 1, 2, 3, 4, 5, 6)
            }
            SKind::Copied => SK::Cop(ks::iter_copied(sl)),
            SKind::Windows => SK::Win(ks::windows(sl, s.size)),
            SKind::Chunks => SK::Ch(ks::chunks(sl, s.size)),
            SKind::RChunks => SK::RCh(ks::rchunks(sl, s.size)),
            SKind::ChunksExact => SK::ChE(ks::chunks_exact(sl, s.size)),
            SKind::RChunksExact => SK::RChE(ks::rchunks_exact(sl, s.size)),
            SKind::ArrayChunks => match s.size {
                1 => SK::A1(ks::array_chunks(sl)),
                2 => SK::A2(ks::array_chunks(sl)),
                3 => SK::A3(ks::array_chunks(sl)),
                _ => SK::A4(ks::array_chunks(sl)),
            },
        }
    }

    fn m_next<'a>(m: &mut SM<'a, T>, d: &'a Vec<T>) -> Option<SItem<T>> {
        m.step(d, true)
    }
    fn m_next_back<'a>(m: &mut SM<'a, T>, d: &'a Vec<T>) -> Option<SItem<T>> {
        m.step(d, false)
    }
    fn m_can_back(_m: &SM<'_, T>) -> bool {
        true
    }
    fn m_can_rev(_m: &SM<'_, T>) -> bool {
        true
    }
    fn m_rev<'a>(mut m: SM<'a, T>, _d: &'a Vec<T>) -> SM<'a, T> {
        m.rev = !m.rev;
        m
    }
    fn m_observe<'a>(m: &SM<'a, T>, d: &'a Vec<T>) -> Option<SItem<T>> {
        match (&m.it, m.kind) {
            (SMI::Iter(it), _) => Some(c_sub(d, it.as_slice())),
            (SMI::ChE(it), SKind::ChunksExact) => Some(c_sub(d, it.remainder())),
            (SMI::ChE(it), SKind::ArrayChunks) if !m.rev => Some(c_sub(d, it.remainder())),
            (SMI::RChE(it), _) => Some(c_sub(d, it.remainder())),
            _ => None,
        }
    }
    fn m_remaining(m: &SM<'_, T>) -> usize {
        m.remaining()
    }
    fn m_state_id(m: &SM<'_, T>) -> u64 {
        (m.kind as u64) * 4 + m.rev as u64 + 1000 * (m.size.min(50) as u64)
    }

    fn k_next<'a>(k: &SK<'a, T>, d: &'a Vec<T>) -> Option<(SItem<T>, SK<'a, T>)> {
        with_variants!(gen_step; k, d, next)
    }
    fn k_next_back<'a>(k: &SK<'a, T>, d: &'a Vec<T>) -> Option<(SItem<T>, SK<'a, T>)> {
        with_variants!(gen_step; k, d, next_back)
    }
    fn k_copy<'a>(k: &SK<'a, T>, _d: &'a Vec<T>) -> SK<'a, T> {
        with_variants!(gen_copy; k)
    }
    fn k_rev<'a>(k: SK<'a, T>, _d: &'a Vec<T>) -> SK<'a, T> {
        match k {
            SK::Iter(it) => SK::IterRev(it.rev()),
            SK::IterRev(it) => SK::Iter(it.rev()),
            SK::Cop(it) => SK::CopRev(it.rev()),
            SK::CopRev(it) => SK::Cop(it.rev()),
            SK::Win(it) => SK::WinRev(it.rev()),
            SK::WinRev(it) => SK::Win(it.rev()),
            SK::Ch(it) => SK::ChRev(it.rev()),
            SK::ChRev(it) => SK::Ch(it.rev()),
            SK::RCh(it) => SK::RChRev(it.rev()),
            SK::RChRev(it) => SK::RCh(it.rev()),
            SK::ChE(it) => SK::ChERev(it.rev()),
            SK::ChERev(it) => SK::ChE(it.rev()),
            SK::RChE(it) => SK::RChERev(it.rev()),
            SK::RChERev(it) => SK::RChE(it.rev()),
            SK::A1(it) => SK::A1Rev(it.rev()),
            SK::A1Rev(it) => SK::A1(it.rev()),
            SK::A2(it) => SK::A2Rev(it.rev()),
            SK::A2Rev(it) => SK::A2(it.rev()),
            SK::A3(it) => SK::A3Rev(it.rev()),
            SK::A3Rev(it) => SK::A3(it.rev()),
            SK::A4(it) => SK::A4Rev(it.rev()),
            SK::A4Rev(it) => SK::A4(it.rev()),
        }
    }
    fn k_observe<'a>(k: &SK<'a, T>, d: &'a Vec<T>) -> Option<SItem<T>> {
        Some(match k {
            SK::Iter(it) => c_sub(d, it.as_slice()),
            SK::IterRev(it) => c_sub(d, it.as_slice()),
            SK::Cop(it) => c_sub(d, it.as_slice()),
            SK::CopRev(it) => c_sub(d, it.as_slice()),
            SK::ChE(it) => c_sub(d, it.remainder()),
            SK::ChERev(it) => c_sub(d, it.remainder()),
            SK::RChE(it) => c_sub(d, it.remainder()),
            SK::RChERev(it) => c_sub(d, it.remainder()),
            SK::A1(it) => c_sub(d, it.remainder()),
            SK::A2(it) => c_sub(d, it.remainder()),
            SK::A3(it) => c_sub(d, it.remainder()),
            SK::A4(it) => c_sub(d, it.remainder()),
            _ => return None,
        })
    }

    fn escaped(i: &SItem<T>) -> Option<String> {
        match i {
            SItem::Sub { off: None, len } => Some(format!("sub-slice of length {len} does not lie inside the slice it was derived from")),
            SItem::Elem { off: None } => Some("element reference does not point into the slice".to_string()),
            _ => None,
        }
    }

    fn probes(s: &SSetup, m: &SM<'_, T>, op: &IOp, cov: &mut Cov) {
        let back = matches!(op, IOp::NextBack { .. }) != m.rev;
        match s.kind {
            SKind::Chunks | SKind::RChunks => {
                // the end at which the partial chunk sits: back for chunks, (model) back for rchunks too
                if back && s.len % s.size != 0 {
                    if let SMI::Ch(it) = &m.it {
                        if it.clone().next_back().map(|c| c.len() < s.size).unwrap_or(false) {
                            cov.probe("chunks-next_back-partial-last");
                        }
                    }
                    if let SMI::RCh(it) = &m.it {
                        if it.clone().next_back().map(|c| c.len() < s.size).unwrap_or(false) {
                            cov.probe("rchunks-next_back-partial-first");
                        }
                    }
                }
            }
            SKind::Windows => {
                if s.size > s.len {
                    cov.probe("windows-size-gt-len");
                }
            }
            SKind::ChunksExact | SKind::RChunksExact | SKind::ArrayChunks => {
                if s.len % s.size != 0 {
                    cov.probe("exact-chunks-nonempty-remainder");
                }
            }
            _ => {}
        }
        if m.rev {
            cov.probe("slices-stepped-while-reversed");
        }
    }

    fn sweep_setups() -> Vec<SSetup> {
        let mut v = Vec::new();
        for kind in KINDS {
            for len in [0usize, 1, 2, 3, 4, 7] {
                if kind == SKind::ArrayChunks {
                    for size in 1..=4usize {
                        v.push(SSetup { len, kind, size });
                    }
                } else if matches!(kind, SKind::Iter | SKind::IterViaMacro | SKind::IterViaMacroRefRef | SKind::IterViaMacroArray | SKind::IterViaMacroArrayRefRef | SKind::Copied) {
                    v.push(SSetup { len, kind, size: 1 });
                } else {
                    let mut sizes = vec![1usize, 2, 3, len.max(1), len + 1, usize::MAX];
                    sizes.sort_unstable();
                    sizes.dedup();
                    for size in sizes {
                        v.push(SSetup { len, kind, size });
                    }
                }
            }
        }
        v
    }

    fn required_probes() -> &'static [&'static str] {
        &[
            "chunks-next_back-partial-last",
            "rchunks-next_back-partial-first",
            "windows-size-gt-len",
            "exact-chunks-nonempty-remainder",
            "slices-stepped-while-reversed",
        ]
    }
}
