//! World C: `string::chars` / `char_indices` (and their reversed types) against std (C07, C01).

use crate::iterworld::*;
use crate::kernel::*;
use crate::prng::Rng;
use konst::string as ks;
use serde::{Deserialize, Serialize};

#[derive(Serialize, Deserialize, Clone, Copy, Debug, PartialEq)]
pub enum CKind {
    Chars,
    CharIndices,
}

#[derive(Serialize, Deserialize, Clone, Debug)]
pub struct CSetup {
    pub text: String,
    pub kind: CKind,
}

#[derive(PartialEq, Debug)]
pub enum CItem {
    Ch(char),
    Idx(usize, char),
    /// `as_str()`: byte offset in the datum (None = outside), length, valid UTF-8, on boundaries
    Str { off: Option<usize>, len: usize, valid: bool, boundary: bool },
}

fn c_str(d: &String, s: &str) -> CItem {
    let off = str_offset_in(d.as_str(), s);
    let valid = std::str::from_utf8(s.as_bytes()).is_ok();
    let boundary = match off {
        Some(o) => d.is_char_boundary(o) && d.is_char_boundary(o + s.len()),
        None => s.is_empty(),
    };
    // empty strings carry no bytes: only emptiness is compared
    CItem::Str { off: if s.is_empty() { Some(0) } else { off }, len: s.len(), valid, boundary: boundary || s.is_empty() }
}

pub enum CK<'a> {
    C(ks::Chars<'a>),
    CR(ks::RChars<'a>),
    CI(ks::CharIndices<'a>),
    CIR(ks::RCharIndices<'a>),
}

#[derive(Clone)]
pub enum CMI<'a> {
    C(std::str::Chars<'a>),
    CI(std::str::CharIndices<'a>),
}
#[derive(Clone)]
pub struct CM<'a> {
    it: CMI<'a>,
    rev: bool,
}

pub struct CharFam;

/// boundary scalars of each UTF-8 length
const BOUNDARY: &[char] = &[
    '\u{0}', '\u{7F}', '\u{80}', '\u{7FF}', '\u{800}', '\u{D7FF}', '\u{E000}', '\u{FFFF}', '\u{10000}', '\u{10FFFF}', 'a', 'é', '€', '😀',
];

fn random_scalar(rng: &mut Rng, class: u64) -> char {
    let (lo, hi) = match class {
        0 => (0u32, 0x7F),
        1 => (0x80, 0x7FF),
        2 => (0x800, 0xFFFF),
        _ => (0x10000, 0x10FFFF),
    };
    loop {
        let n = lo + rng.below((hi - lo + 1) as u64) as u32;
        if let Some(c) = char::from_u32(n) {
            return c;
        }
    }
}

impl Fam for CharFam {
    const WORLD: &'static str = "chars";
    const PROP: &'static str = "C07";
    type Setup = CSetup;
    type Datum = String;
    type K<'a> = CK<'a>;
    type M<'a> = CM<'a>;
    type Item = CItem;

    fn gen_setup(rng: &mut Rng, tier: Tier, _prop: &str) -> CSetup {
        let maxlen = if tier == Tier::Thorough { 32 } else { 12 };
        let n = match rng.below(40) {
            0..=4 => rng.range(0, 2),
            5 => *rng.pick(&[33usize, 64, 130, 257]),
            _ => rng.range(0, maxlen),
        };
        // swarm: which UTF-8 length classes may occur
        let only = match rng.below(8) {
            0 => Some(1u64),
            1 => Some(2),
            2 => Some(3),
            3 => Some(0),
            _ => None,
        };
        let mut text = String::new();
        for _ in 0..n {
            let c = match only {
                Some(cl) => {
                    if rng.chance(1, 2) {
                        let cands: Vec<char> = BOUNDARY.iter().copied().filter(|c| c.len_utf8() as u64 == cl + 1).collect();
                        *rng.pick(&cands)
                    } else {
                        random_scalar(rng, cl)
                    }
                }
                None => {
                    if rng.chance(2, 3) {
                        *rng.pick(BOUNDARY)
                    } else {
                        let cl = rng.below(4);
                        random_scalar(rng, cl)
                    }
                }
            };
            text.push(c);
        }
        let kind = if rng.chance(1, 2) { CKind::Chars } else { CKind::CharIndices };
        CSetup { text, kind }
    }

    fn shrink_setup(s: &CSetup) -> Vec<CSetup> {
        let mut out = Vec::new();
        for (i, c) in s.text.char_indices() {
            let mut t = String::new();
            t.push_str(&s.text[..i]);
            t.push_str(&s.text[i + c.len_utf8()..]);
            out.push(CSetup { text: t, kind: s.kind });
        }
        for (i, c) in s.text.char_indices() {
            if c != 'a' {
                let mut t = String::new();
                t.push_str(&s.text[..i]);
                t.push('a');
                t.push_str(&s.text[i + c.len_utf8()..]);
                out.push(CSetup { text: t, kind: s.kind });
            }
        }
        out
    }

    fn datum(s: &CSetup) -> String {
        s.text.clone()
    }

    fn m_new<'a>(s: &CSetup, d: &'a String) -> CM<'a> {
        CM {
            it: match s.kind {
                CKind::Chars => CMI::C(d.chars()),
                CKind::CharIndices => CMI::CI(d.char_indices()),
            },
            rev: false,
        }
    }
    fn k_new<'a>(s: &CSetup, d: &'a String) -> CK<'a> {
        match s.kind {
            // (through into_iter!, which is the identity on konst iterators)
            CKind::Chars => CK::C(konst::iter::into_iter!(ks::chars(d.as_str()))),
            CKind::CharIndices => CK::CI(konst::iter::into_iter!(ks::char_indices(d.as_str()))),
        }
    }
    fn m_next<'a>(m: &mut CM<'a>, _d: &'a String) -> Option<CItem> {
        match (&mut m.it, m.rev) {
            (CMI::C(it), false) => it.next().map(CItem::Ch),
            (CMI::C(it), true) => it.next_back().map(CItem::Ch),
            (CMI::CI(it), false) => it.next().map(|(i, c)| CItem::Idx(i, c)),
            (CMI::CI(it), true) => it.next_back().map(|(i, c)| CItem::Idx(i, c)),
        }
    }
    fn m_next_back<'a>(m: &mut CM<'a>, _d: &'a String) -> Option<CItem> {
        match (&mut m.it, m.rev) {
            (CMI::C(it), true) => it.next().map(CItem::Ch),
            (CMI::C(it), false) => it.next_back().map(CItem::Ch),
            (CMI::CI(it), true) => it.next().map(|(i, c)| CItem::Idx(i, c)),
            (CMI::CI(it), false) => it.next_back().map(|(i, c)| CItem::Idx(i, c)),
        }
    }
    fn m_can_back(_m: &CM<'_>) -> bool {
        true
    }
    fn m_can_rev(_m: &CM<'_>) -> bool {
        true
    }
    fn m_rev<'a>(mut m: CM<'a>, _d: &'a String) -> CM<'a> {
        m.rev = !m.rev;
        m
    }
    fn m_observe<'a>(m: &CM<'a>, d: &'a String) -> Option<CItem> {
        if m.rev {
            return None; // konst's RChars / RCharIndices have no as_str
        }
        Some(match &m.it {
            CMI::C(it) => c_str(d, it.as_str()),
            CMI::CI(it) => c_str(d, it.as_str()),
        })
    }
    fn m_remaining(m: &CM<'_>) -> usize {
        match &m.it {
            CMI::C(it) => it.clone().count(),
            CMI::CI(it) => it.clone().count(),
        }
    }
    fn m_state_id(m: &CM<'_>) -> u64 {
        let (k, s) = match &m.it {
            CMI::C(it) => (1u64, it.as_str()),
            CMI::CI(it) => (2u64, it.as_str()),
        };
        // lengths (in bytes) of the first and last remaining chars are part of the abstract state
        let f = s.chars().next().map(|c| c.len_utf8()).unwrap_or(0) as u64;
        let l = s.chars().next_back().map(|c| c.len_utf8()).unwrap_or(0) as u64;
        k * 2 + m.rev as u64 + 16 * f + 128 * l
    }
    fn k_next<'a>(k: &CK<'a>, _d: &'a String) -> Option<(CItem, CK<'a>)> {
        match k {
            CK::C(it) => it.copy().next().map(|(c, n)| (CItem::Ch(c), CK::C(n))),
            CK::CR(it) => it.copy().next().map(|(c, n)| (CItem::Ch(c), CK::CR(n))),
            CK::CI(it) => it.copy().next().map(|((i, c), n)| (CItem::Idx(i, c), CK::CI(n))),
            CK::CIR(it) => it.copy().next().map(|((i, c), n)| (CItem::Idx(i, c), CK::CIR(n))),
        }
    }
    fn k_next_back<'a>(k: &CK<'a>, _d: &'a String) -> Option<(CItem, CK<'a>)> {
        match k {
            CK::C(it) => it.copy().next_back().map(|(c, n)| (CItem::Ch(c), CK::C(n))),
            CK::CR(it) => it.copy().next_back().map(|(c, n)| (CItem::Ch(c), CK::CR(n))),
            CK::CI(it) => it.copy().next_back().map(|((i, c), n)| (CItem::Idx(i, c), CK::CI(n))),
            CK::CIR(it) => it.copy().next_back().map(|((i, c), n)| (CItem::Idx(i, c), CK::CIR(n))),
        }
    }
    fn k_copy<'a>(k: &CK<'a>, _d: &'a String) -> CK<'a> {
        match k {
            CK::C(it) => CK::C(it.copy()),
            CK::CR(it) => CK::CR(it.copy()),
            CK::CI(it) => CK::CI(it.copy()),
            CK::CIR(it) => CK::CIR(it.copy()),
        }
    }
    fn k_rev<'a>(k: CK<'a>, _d: &'a String) -> CK<'a> {
        match k {
            CK::C(it) => CK::CR(it.rev()),
            CK::CR(it) => CK::C(it.rev()),
            CK::CI(it) => CK::CIR(it.rev()),
            CK::CIR(it) => CK::CI(it.rev()),
        }
    }
    fn k_observe<'a>(k: &CK<'a>, d: &'a String) -> Option<CItem> {
        match k {
            CK::C(it) => Some(c_str(d, it.as_str())),
            CK::CI(it) => Some(c_str(d, it.as_str())),
            _ => None,
        }
    }
    fn escaped(i: &CItem) -> Option<String> {
        let bad_scalar = |c: &char| {
            let n = *c as u32;
            n > 0x10FFFF || (0xD800..=0xDFFF).contains(&n)
        };
        match i {
            CItem::Ch(c) | CItem::Idx(_, c) if bad_scalar(c) => Some(format!("not a Unicode scalar value: {:#x}", *c as u32)),
            CItem::Str { off: None, .. } => Some("as_str() does not lie inside the string".into()),
            CItem::Str { valid: false, .. } => Some("as_str() is not valid UTF-8".into()),
            CItem::Str { boundary: false, .. } => Some("as_str() does not begin/end on char boundaries of the string".into()),
            _ => None,
        }
    }

    fn probes(_s: &CSetup, m: &CM<'_>, op: &IOp, cov: &mut Cov) {
        let front = matches!(op, IOp::Next { .. }) != m.rev;
        let s = match &m.it {
            CMI::C(it) => it.as_str(),
            CMI::CI(it) => it.as_str(),
        };
        let c = if front { s.chars().next() } else { s.chars().next_back() };
        if let Some(c) = c {
            match (front, c.len_utf8()) {
                (false, 4) => cov.probe("chars-4-byte-from-back"),
                (false, 3) => cov.probe("chars-3-byte-from-back"),
                (false, 2) => cov.probe("chars-2-byte-from-back"),
                (true, 4) => cov.probe("chars-4-byte-from-front"),
                _ => {}
            }
            if !front && matches!(m.it, CMI::CI(_)) && s.len() > c.len_utf8() {
                cov.probe("char_indices-next_back-nonzero-offset");
            }
        }
    }
    fn sweep_setups() -> Vec<CSetup> {
        let texts = ["", "a", "é", "€", "😀", "aé€😀", "😀€éa", "\u{7ff}\u{800}\u{ffff}\u{10000}", "\u{e000}\u{d7ff}\u{10ffff}\u{0}", "ࠀa\u{fff}", "ab"];
        let mut v = Vec::new();
        for t in texts {
            for kind in [CKind::Chars, CKind::CharIndices] {
                v.push(CSetup { text: t.to_string(), kind });
            }
        }
        v
    }

    fn required_probes() -> &'static [&'static str] {
        &[
            "chars-4-byte-from-back",
            "chars-3-byte-from-back",
            "chars-2-byte-from-back",
            "chars-4-byte-from-front",
            "char_indices-next_back-nonzero-offset",
            "chr-encode-utf8-cross-checked",
        ]
    }

    /// every char placed in the datum goes through konst's own encode_utf8 / from_u32 once
    /// (the complete enumeration over all chars / u32 is NOT claimed, see DESIGN.md 6 C07)
    fn extra<'a>(s: &CSetup, _d: &'a String, ctx: &mut Ctx, step: usize) -> Res {
        if !ctx.wants("C07") {
            return Ok(());
        }
        for c in s.text.chars() {
            let r = guard(|| {
                let e = konst::chr::encode_utf8(c);
                let mut buf = [0u8; 4];
                let want = c.encode_utf8(&mut buf).as_bytes().to_vec();
                (e.as_str().as_bytes().to_vec() == want && e.as_bytes() == want.as_slice(), konst::chr::from_u32(c as u32) == Some(c))
            });
            match r {
                Err(m) => return Err(viol("unexpected-panic", step, format!("chr::encode_utf8/from_u32({:?}) panicked: {m}", c))),
                Ok((enc_ok, from_ok)) => {
                    if !enc_ok {
                        return Err(viol("encode-utf8-mismatch", step, format!("chr::encode_utf8({:?}) differs from char::encode_utf8", c)));
                    }
                    if !from_ok {
                        return Err(viol("from-u32-mismatch", step, format!("chr::from_u32({:#x}) != Some({:?})", c as u32, c)));
                    }
                }
            }
        }
        ctx.cov.probe("chr-encode-utf8-cross-checked");
        Ok(())
    }
}
