pub mod parser;
pub mod slices;
pub mod ranges;
pub mod chars;
pub mod splits;
