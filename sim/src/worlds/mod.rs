pub mod parser;
