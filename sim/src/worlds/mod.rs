pub mod parser;
pub mod slices;
pub mod ranges;
pub mod chars;
pub mod splits;
pub mod byvalue;
pub mod byvalue_model;
pub mod byvalue_ops;
