pub mod parser;
pub mod slices;
