//! World D: `string::{split, rsplit, split_terminator, rsplit_terminator}` against std's split
//! family (C06, C01).
//!
//! Model per handle: the complete piece sequence std yields for (text, delimiter), as byte
//! ranges of the text, plus a cursor. `rsplit_terminator` follows the documented mirrored rule:
//! `str::rsplit`'s sequence with its last piece removed iff that piece is empty (this is NOT
//! std's `rsplit_terminator`). `remainder()` after i pieces is the suffix (prefix for the r
//! variants) that follows (precedes) the i-th consumed delimiter, "" once the last piece is out.

use crate::iterworld::*;
use crate::kernel::*;
use crate::prng::Rng;
use konst::string as ks;
use serde::{Deserialize, Serialize};

#[derive(Serialize, Deserialize, Clone, Debug, PartialEq)]
pub enum DPat {
    S(String),
    C(char),
}
impl DPat {
    fn as_string(&self) -> String {
        match self {
            DPat::S(s) => s.clone(),
            DPat::C(c) => c.to_string(),
        }
    }
}

#[derive(Serialize, Deserialize, Clone, Copy, Debug, PartialEq)]
pub enum DKind {
    Split,
    RSplit,
    SplitTerminator,
    RSplitTerminator,
    /// `split(t, d).rev()` on a fresh iterator: must yield rsplit's pieces
    SplitRevFresh,
    /// `rsplit(t, d).rev()` on a fresh iterator: must yield split's pieces
    RSplitRevFresh,
}

#[derive(Serialize, Deserialize, Clone, Debug)]
pub struct DSetup {
    pub text: String,
    pub delim: DPat,
    pub kind: DKind,
    /// C01 only: mixed next/next_back and mid-iteration rev on Split/RSplit, no model comparison
    #[serde(default)]
    pub free: bool,
}

pub struct DDatum {
    text: String,
    delim: String,
    delim_char: Option<char>,
}

#[derive(PartialEq, Debug)]
pub enum DItem {
    Str { off: Option<usize>, len: usize, valid: bool, boundary: bool },
}

fn d_str(d: &DDatum, s: &str) -> DItem {
    let off = str_offset_in(d.text.as_str(), s);
    let valid = std::str::from_utf8(s.as_bytes()).is_ok();
    let boundary = match off {
        Some(o) => d.text.is_char_boundary(o) && d.text.is_char_boundary(o + s.len()),
        None => s.is_empty(),
    };
    DItem::Str { off: if s.is_empty() { Some(0) } else { off }, len: s.len(), valid, boundary: boundary || s.is_empty() }
}
fn d_range(d: &DDatum, lo: usize, hi: usize) -> DItem {
    d_str(d, &d.text[lo..hi])
}

pub enum DK<'a> {
    SplS(ks::Split<'a, 'a, &'a str>),
    SplC(ks::Split<'a, 'a, char>),
    RSplS(ks::RSplit<'a, 'a, &'a str>),
    RSplC(ks::RSplit<'a, 'a, char>),
    StS(ks::SplitTerminator<'a, 'a, &'a str>),
    StC(ks::SplitTerminator<'a, 'a, char>),
    RStS(ks::RSplitTerminator<'a, 'a, &'a str>),
    RStC(ks::RSplitTerminator<'a, 'a, char>),
}

#[derive(Clone)]
pub struct DM {
    /// (start, end) byte ranges of the pieces std yields, in iteration order
    pieces: Vec<(usize, usize)>,
    pos: usize,
    /// the iterator walks the text right-to-left
    reverse: bool,
    dlen: usize,
    text_len: usize,
    free_budget: Option<usize>,
    kind: DKind,
}

pub struct SplitFam;

// incl. shorter chars that share their last byte(s) with a longer delimiter char: ¬ (C2 AC) vs € (E2 82 AC);
// À (C3 80), U+3000 (E3 80 80) vs 😀 (F0 9F 98 80)
const ALPHA: &[&str] = &["a", "b", ",", "é", "€", "😀", "aa", "ab", "a", ",", "ᄀ", "à", "¬", "À", "\u{3000}", "ì"];
/// one char at each boundary of the UTF-8 lead-byte classes (C2, DF, E0, ED, EE, EF, F0, F4)
const LEAD_BYTE_EDGES: &[&str] = &["\u{80}", "\u{7ff}", "\u{800}", "\u{fff}", "\u{d7ff}", "\u{e000}", "\u{f000}", "\u{feff}", "\u{ffff}", "\u{10000}", "\u{3ffff}", "\u{10ffff}"];
/// chars sharing one, two or three leading bytes (or only the last byte) with the delimiter chars é € 😀
const LOOKALIKES: &[&str] = &["ê", "\u{129}", "\u{20ad}", "\u{201a}", "\u{2200}", "\u{1f601}", "\u{1f630}", "\u{1f640}", "\u{1f000}"];
const DELIMS: &[&str] = &["", "a", "aa", "ab", "aab", ",", ",,", "é", "€a", "aba", "abab", "b", "😀", ",a,", "aaa", "abaab", "aabaa", "ééa", "€€", "a😀a", "<--"];
const DELIM_CHARS: &[char] = &['a', ',', '€', 'é', '😀', 'b'];

fn std_pieces(text: &str, delim: &str, kind: DKind) -> Vec<(usize, usize)> {
    let off = |s: &str| {
        let o = s.as_ptr() as usize - text.as_ptr() as usize;
        (o, o + s.len())
    };
    match kind {
        DKind::Split | DKind::RSplitRevFresh => text.split(delim).map(off).collect(),
        DKind::RSplit | DKind::SplitRevFresh => text.rsplit(delim).map(off).collect(),
        DKind::SplitTerminator => text.split_terminator(delim).map(off).collect(),
        DKind::RSplitTerminator => {
            // mirrored rule: rsplit's sequence minus its last piece iff that piece is empty
            let mut v: Vec<(usize, usize)> = text.rsplit(delim).map(off).collect();
            if let Some((a, b)) = v.last() {
                if a == b {
                    v.pop();
                }
            }
            v
        }
    }
}

impl Fam for SplitFam {
    const WORLD: &'static str = "splits";
    const PROP: &'static str = "C06";
    type Setup = DSetup;
    type Datum = DDatum;
    type K<'a> = DK<'a>;
    type M<'a> = DM;
    type Item = DItem;

    fn gen_setup(rng: &mut Rng, tier: Tier, prop: &str) -> DSetup {
        let maxlen = if tier == Tier::Thorough { 24 } else { 12 };
        let delim = match rng.below(12) {
            0..=2 => DPat::C(*rng.pick(DELIM_CHARS)),
            3..=5 => {
                // random delimiter over a tiny alphabet: every overlap / periodicity structure up to length 5
                let n = rng.range(1, 5);
                let two = rng.chance(2, 3);
                DPat::S((0..n).map(|_| if two { *rng.pick(&['a', 'b']) } else { *rng.pick(&['a', 'b', ',', 'é']) }).collect())
            }
            _ => DPat::S(rng.pick(DELIMS).to_string()),
        };
        let ds = delim.as_string();
        let n = match rng.below(40) {
            0..=3 => rng.range(0, 1),
            // occasionally long texts
            4 => *rng.pick(&[40usize, 70, 140, 300]),
            _ => rng.range(0, maxlen),
        };
        let mut text = String::new();
        let mut count = 0;
        if !ds.is_empty() && rng.chance(1, 12) {
            // nothing but delimiters (the remainder equals the delimiter at some step)
            for _ in 0..rng.range(1, 3) {
                text.push_str(&ds);
            }
            count = n;
        }
        // assembled from tokens so that delimiters occur, touch, lead, trail and overlap
        let w_delim = *rng.pick(&[1u64, 2, 4]);
        let mut near_buf;
        while count < n {
            let t: &str = if !ds.is_empty() && rng.chance(w_delim, 6) {
                ds.as_str()
            } else if !ds.is_empty() && rng.chance(1, 6) {
                // a proper prefix of the delimiter (defeated partial matches)
                let idx: Vec<usize> = ds.char_indices().map(|(i, _)| i).collect();
                let k = *rng.pick(&idx);
                &ds[..k]
            } else if !ds.is_empty() && rng.chance(1, 8) {
                // a near miss: the delimiter with one char swapped for a look-alike that shares all but
                // its last UTF-8 byte (a partial match defeated on a continuation byte, possibly directly
                // in front of a real occurrence)
                let cs: Vec<char> = ds.chars().collect();
                let at = rng.below(cs.len() as u64) as usize;
                let near: String = cs.iter().enumerate().map(|(i, c)| if i == at { char::from_u32(*c as u32 ^ 1).unwrap_or(*c) } else { *c }).collect();
                near_buf = near;
                near_buf.as_str()
            } else if rng.chance(1, 8) {
                let set = if rng.chance(1, 3) { LOOKALIKES } else { LEAD_BYTE_EDGES };
                *rng.pick(set)
            } else {
                *rng.pick(ALPHA)
            };
            text.push_str(t);
            count += t.chars().count().max(1);
        }
        let kind = match rng.below(8) {
            0 | 1 => DKind::Split,
            2 | 3 => DKind::RSplit,
            4 => DKind::SplitTerminator,
            5 => DKind::RSplitTerminator,
            6 => DKind::SplitRevFresh,
            _ => DKind::RSplitRevFresh,
        };
        let free = prop == "C01" && matches!(kind, DKind::Split | DKind::RSplit) && rng.chance(1, 2);
        DSetup { text, delim, kind, free }
    }

    fn shrink_setup(s: &DSetup) -> Vec<DSetup> {
        let mut out = Vec::new();
        for (i, c) in s.text.char_indices() {
            let mut t = String::new();
            t.push_str(&s.text[..i]);
            t.push_str(&s.text[i + c.len_utf8()..]);
            out.push(DSetup { text: t, ..s.clone() });
        }
        if let DPat::S(d) = &s.delim {
            let cs: Vec<char> = d.chars().collect();
            if cs.len() > 1 {
                out.push(DSetup { delim: DPat::S(cs[1..].iter().collect()), ..s.clone() });
                out.push(DSetup { delim: DPat::S(cs[..cs.len() - 1].iter().collect()), ..s.clone() });
            }
        }
        out
    }

    fn datum(s: &DSetup) -> DDatum {
        DDatum {
            text: s.text.clone(),
            delim: s.delim.as_string(),
            delim_char: if let DPat::C(c) = &s.delim { Some(*c) } else { None },
        }
    }

    fn m_new<'a>(s: &DSetup, d: &'a DDatum) -> DM {
        let pieces = std_pieces(&d.text, &d.delim, s.kind);
        let reverse = matches!(s.kind, DKind::RSplit | DKind::RSplitTerminator | DKind::SplitRevFresh);
        DM {
            pieces,
            pos: 0,
            reverse,
            dlen: d.delim.len(),
            text_len: d.text.len(),
            free_budget: if s.free { Some(d.text.chars().count() + 4) } else { None },
            kind: s.kind,
        }
    }

    fn k_new<'a>(s: &DSetup, d: &'a DDatum) -> DK<'a> {
        let t: &'a str = d.text.as_str();
        match (s.kind, d.delim_char) {
            (DKind::Split, None) => DK::SplS(ks::split(t, d.delim.as_str())),
            (DKind::Split, Some(c)) => DK::SplC(ks::split(t, c)),
            (DKind::RSplit, None) => DK::RSplS(ks::rsplit(t, d.delim.as_str())),
            (DKind::RSplit, Some(c)) => DK::RSplC(ks::rsplit(t, c)),
            (DKind::SplitTerminator, None) => DK::StS(ks::split_terminator(t, d.delim.as_str())),
            (DKind::SplitTerminator, Some(c)) => DK::StC(ks::split_terminator(t, c)),
            (DKind::RSplitTerminator, None) => DK::RStS(ks::rsplit_terminator(t, d.delim.as_str())),
            (DKind::RSplitTerminator, Some(c)) => DK::RStC(ks::rsplit_terminator(t, c)),
            (DKind::SplitRevFresh, None) => DK::RSplS(ks::split(t, d.delim.as_str()).rev()),
            (DKind::SplitRevFresh, Some(c)) => DK::RSplC(ks::split(t, c).rev()),
            (DKind::RSplitRevFresh, None) => DK::SplS(ks::rsplit(t, d.delim.as_str()).rev()),
            (DKind::RSplitRevFresh, Some(c)) => DK::SplC(ks::rsplit(t, c).rev()),
        }
    }

    fn m_next<'a>(m: &mut DM, d: &'a DDatum) -> Option<DItem> {
        if let Some(b) = m.free_budget.as_mut() {
            *b = b.saturating_sub(1);
            return None;
        }
        let p = m.pieces.get(m.pos).copied();
        if p.is_some() {
            m.pos += 1;
        }
        p.map(|(a, b)| d_range(d, a, b))
    }
    fn m_next_back<'a>(m: &mut DM, _d: &'a DDatum) -> Option<DItem> {
        if let Some(b) = m.free_budget.as_mut() {
            *b = b.saturating_sub(1);
        }
        None
    }
    fn m_can_back(m: &DM) -> bool {
        m.free_budget.is_some()
    }
    fn m_can_rev(m: &DM) -> bool {
        m.free_budget.is_some()
    }
    fn m_rev<'a>(m: DM, _d: &'a DDatum) -> DM {
        m
    }
    fn m_is_free(m: &DM) -> bool {
        m.free_budget.is_some()
    }
    fn m_observe<'a>(m: &DM, d: &'a DDatum) -> Option<DItem> {
        if m.free_budget.is_some() {
            return None;
        }
        let n = m.pieces.len();
        let i = m.pos;
        let (lo, hi) = if i == 0 {
            (0, m.text_len)
        } else if i >= n && m.dlen != 0 {
            // the last piece is out: nothing is left to split
            (0, 0)
        } else {
            let (a, b) = m.pieces[i - 1];
            if m.dlen == 0 {
                // empty delimiter: the not-yet-walked tail / head
                if i >= n && !matches!(m.kind, DKind::SplitTerminator | DKind::RSplitTerminator) {
                    (0, 0)
                } else if m.reverse {
                    (0, a)
                } else {
                    (b, m.text_len)
                }
            } else if m.reverse {
                (0, a - m.dlen)
            } else {
                (b + m.dlen, m.text_len)
            }
        };
        Some(d_range(d, lo, hi))
    }
    fn m_remaining(m: &DM) -> usize {
        match m.free_budget {
            Some(b) => b,
            None => m.pieces.len() - m.pos,
        }
    }
    fn m_state_id(m: &DM) -> u64 {
        (m.kind as u64) * 8 + (m.dlen.min(5) as u64) * 64 + (m.free_budget.is_some() as u64) * 512 + (m.pos == 0) as u64
    }

    fn k_next<'a>(k: &DK<'a>, d: &'a DDatum) -> Option<(DItem, DK<'a>)> {
        match k {
            DK::SplS(it) => it.copy().next().map(|(s, n)| (d_str(d, s), DK::SplS(n))),
            DK::SplC(it) => it.copy().next().map(|(s, n)| (d_str(d, s), DK::SplC(n))),
            DK::RSplS(it) => it.copy().next().map(|(s, n)| (d_str(d, s), DK::RSplS(n))),
            DK::RSplC(it) => it.copy().next().map(|(s, n)| (d_str(d, s), DK::RSplC(n))),
            DK::StS(it) => it.copy().next().map(|(s, n)| (d_str(d, s), DK::StS(n))),
            DK::StC(it) => it.copy().next().map(|(s, n)| (d_str(d, s), DK::StC(n))),
            DK::RStS(it) => it.copy().next().map(|(s, n)| (d_str(d, s), DK::RStS(n))),
            DK::RStC(it) => it.copy().next().map(|(s, n)| (d_str(d, s), DK::RStC(n))),
        }
    }
    fn k_next_back<'a>(k: &DK<'a>, d: &'a DDatum) -> Option<(DItem, DK<'a>)> {
        match k {
            DK::SplS(it) => it.copy().next_back().map(|(s, n)| (d_str(d, s), DK::SplS(n))),
            DK::SplC(it) => it.copy().next_back().map(|(s, n)| (d_str(d, s), DK::SplC(n))),
            DK::RSplS(it) => it.copy().next_back().map(|(s, n)| (d_str(d, s), DK::RSplS(n))),
            DK::RSplC(it) => it.copy().next_back().map(|(s, n)| (d_str(d, s), DK::RSplC(n))),
            _ => None,
        }
    }
    fn k_copy<'a>(k: &DK<'a>, _d: &'a DDatum) -> DK<'a> {
        match k {
            DK::SplS(it) => DK::SplS(it.copy()),
            DK::SplC(it) => DK::SplC(it.copy()),
            DK::RSplS(it) => DK::RSplS(it.copy()),
            DK::RSplC(it) => DK::RSplC(it.copy()),
            DK::StS(it) => DK::StS(it.copy()),
            DK::StC(it) => DK::StC(it.copy()),
            DK::RStS(it) => DK::RStS(it.copy()),
            DK::RStC(it) => DK::RStC(it.copy()),
        }
    }
    fn k_rev<'a>(k: DK<'a>, _d: &'a DDatum) -> DK<'a> {
        match k {
            DK::SplS(it) => DK::RSplS(it.rev()),
            DK::SplC(it) => DK::RSplC(it.rev()),
            DK::RSplS(it) => DK::SplS(it.rev()),
            DK::RSplC(it) => DK::SplC(it.rev()),
            other => other,
        }
    }
    fn k_observe<'a>(k: &DK<'a>, d: &'a DDatum) -> Option<DItem> {
        Some(match k {
            DK::SplS(it) => d_str(d, it.remainder()),
            DK::SplC(it) => d_str(d, it.remainder()),
            DK::RSplS(it) => d_str(d, it.remainder()),
            DK::RSplC(it) => d_str(d, it.remainder()),
            DK::StS(it) => d_str(d, it.remainder()),
            DK::StC(it) => d_str(d, it.remainder()),
            DK::RStS(it) => d_str(d, it.remainder()),
            DK::RStC(it) => d_str(d, it.remainder()),
        })
    }
    fn escaped(i: &DItem) -> Option<String> {
        match i {
            DItem::Str { off: None, .. } => Some("piece/remainder does not lie inside the string".into()),
            DItem::Str { valid: false, .. } => Some("piece/remainder is not valid UTF-8".into()),
            DItem::Str { boundary: false, .. } => Some("piece/remainder does not begin/end on char boundaries".into()),
            _ => None,
        }
    }

    fn probes(s: &DSetup, m: &DM, _op: &IOp, cov: &mut Cov) {
        let d = s.delim.as_string();
        if d.is_empty() && !s.text.is_ascii() {
            cov.probe("split-empty-delim-multibyte");
        }
        if s.kind == DKind::RSplitTerminator && !d.is_empty() && s.text.starts_with(d.as_str()) {
            cov.probe("rsplit_terminator-leading-delim");
        }
        if s.kind == DKind::SplitTerminator && !d.is_empty() && s.text.ends_with(d.as_str()) {
            cov.probe("split_terminator-trailing-delim");
        }
        if d.chars().count() >= 2 {
            // some prefix of the delimiter has a border (a defeated partial match can hide the
            // start of a real one), and the delimiter occurs in the text
            let self_overlap = (2..=d.len()).filter(|pl| d.is_char_boundary(*pl)).any(|pl| {
                let p = &d[..pl];
                (1..pl).filter(|k| p.is_char_boundary(*k)).any(|k| p.starts_with(&p[k..]))
            });
            if self_overlap && s.text.contains(d.as_str()) {
                cov.probe("split-self-overlapping-delim-occurs");
            }
        }
        if m.pieces.len() >= 3 {
            cov.probe("split-three-or-more-pieces");
        }
        if matches!(s.kind, DKind::SplitRevFresh | DKind::RSplitRevFresh) {
            cov.probe("split-rev-of-fresh-iterator");
        }
    }
    fn sweep_setups() -> Vec<DSetup> {
        let cases: [(&str, &str); 14] = [
            ("", ""), ("", ","), ("a", ""), ("é€", ""), (",", ","), (",,", ","), ("a,b", ","), (",a,", ","), ("a,,b,", ","),
            ("aaab", "aab"), ("baaa", "baa"), ("€a€", "€"), ("😀😀", "😀"), ("ab", "abc"),
        ];
        let kinds = [DKind::Split, DKind::RSplit, DKind::SplitTerminator, DKind::RSplitTerminator, DKind::SplitRevFresh, DKind::RSplitRevFresh];
        let mut v = Vec::new();
        for (t, d) in cases {
            for kind in kinds {
                v.push(DSetup { text: t.to_string(), delim: DPat::S(d.to_string()), kind, free: false });
                if d.chars().count() == 1 {
                    v.push(DSetup { text: t.to_string(), delim: DPat::C(d.chars().next().unwrap()), kind, free: false });
                }
                if matches!(kind, DKind::Split | DKind::RSplit) {
                    v.push(DSetup { text: t.to_string(), delim: DPat::S(d.to_string()), kind, free: true });
                }
            }
        }
        v
    }

    fn required_probes() -> &'static [&'static str] {
        &[
            "split-empty-delim-multibyte",
            "rsplit_terminator-leading-delim",
            "split_terminator-trailing-delim",
            "split-self-overlapping-delim-occurs",
            "split-three-or-more-pieces",
            "split-rev-of-fresh-iterator",
        ]
    }
}
