//! World F, model side: operations, the reference model (Vec / VecDeque of token ids plus the
//! expected drop count of every id), the planner and the fault sweep. Nothing here touches konst.

use crate::kernel::*;
use crate::prng::Rng;
use serde::{Deserialize, Serialize};
use std::collections::VecDeque;

pub const NS: [usize; 7] = [0, 1, 2, 3, 5, 8, 33];
pub const OBJ_CAP: usize = 6;
pub const ID_CAP: u32 = 260;
/// 0 move-through, 1 replace by a fresh token, 2 clone-and-keep, 3 move-through written as
/// `|t: Tok| -> Tok {..}`, 4 a function path instead of a closure (cannot exit early)
pub const N_CLOSURES: u8 = 5;
pub const N_SHAPES: u8 = 27;

#[derive(Serialize, Deserialize, Clone, Copy, Debug, PartialEq)]
pub enum Exit {
    None,
    Panic(u32),
    Break(u32),
    Continue(u32),
    Return(u32),
}
impl Exit {
    /// (kind, callback index at which it fires)
    pub fn split(self) -> (u8, u32) {
        match self {
            Exit::None => (0, 0),
            Exit::Panic(k) => (1, k),
            Exit::Break(k) => (2, k),
            Exit::Continue(k) => (3, k),
            Exit::Return(k) => (4, k),
        }
    }
    pub fn name(self) -> &'static str {
        match self {
            Exit::None => "none",
            Exit::Panic(_) => "panic-closure",
            Exit::Break(_) => "early-exit-break",
            Exit::Continue(_) => "early-exit-continue",
            Exit::Return(_) => "early-exit-return",
        }
    }
}

#[derive(Serialize, Deserialize, Clone, Debug, PartialEq)]
#[serde(tag = "op")]
pub enum FOp {
    NewArray { n: usize },
    ToConsumer { o: usize },
    EmptyConsumer { n: usize },
    CNext { o: usize },
    CNextBack { o: usize },
    CAsSlice { o: usize },
    CSwap { o: usize, i: usize, j: usize },
    CClone { o: usize, fault: u32 },
    CDebug { o: usize },
    CAssertEmpty { o: usize },
    CDrop { o: usize, fault: u32 },
    CForget { o: usize },
    NewBuilder { n: usize },
    BPush { o: usize, t: usize },
    BObserve { o: usize },
    BSwap { o: usize, i: usize, j: usize },
    BClone { o: usize, fault: u32 },
    BDebug { o: usize },
    BBuild { o: usize },
    BInferLen { o: usize, c: usize },
    BDrop { o: usize, fault: u32 },
    BForget { o: usize },
    ADrop { o: usize, fault: u32 },
    MapNew { o: usize, closure: u8, exit: Exit },
    FromFnNew {
        n: usize,
        exit: Exit,
        /// the `from_fn_!([T; N] => |i| ..)` form
        #[serde(default)]
        typed: bool,
    },
    MapOld { o: usize, exit: Exit },
    FromFnOld {
        n: usize,
        exit: Exit,
        #[serde(default)]
        typed: bool,
    },
    Destructure { shape: u8 },
    HDrop { t: usize },
    /// `dst.clone_from(&src)` on two consumers / two builders of the same N
    CCloneFrom { o: usize, c: usize },
    BCloneFrom { o: usize, c: usize },
    /// self-contained: ArrayConsumer<u32,N>/ArrayBuilder<u32,N>::copy() futures
    CopyScenario { n: usize, front: usize, back: usize },
    /// self-contained: zero-sized Drop element, counts only
    ZstScenario { n: usize, front: usize, back: usize, clone: bool },
    /// self-contained: 64-byte, 64-aligned Drop element (size/alignment-dependent bookkeeping)
    BigScenario { n: usize, front: usize, back: usize, clone: bool },
}

impl FOp {
    pub fn kind_id(&self) -> u64 {
        use FOp::*;
        match self {
            NewArray { .. } => 1,
            ToConsumer { .. } => 2,
            EmptyConsumer { .. } => 3,
            CNext { .. } => 4,
            CNextBack { .. } => 5,
            CAsSlice { .. } => 6,
            CSwap { .. } => 7,
            CClone { fault, .. } => 8 + 100 * (*fault > 0) as u64,
            CDebug { .. } => 9,
            CAssertEmpty { .. } => 10,
            CDrop { fault, .. } => 11 + 100 * (*fault > 0) as u64,
            CForget { .. } => 12,
            NewBuilder { .. } => 13,
            BPush { .. } => 14,
            BObserve { .. } => 15,
            BSwap { .. } => 16,
            BClone { fault, .. } => 17 + 100 * (*fault > 0) as u64,
            BDebug { .. } => 18,
            BBuild { .. } => 19,
            BInferLen { .. } => 20,
            BDrop { fault, .. } => 21 + 100 * (*fault > 0) as u64,
            BForget { .. } => 22,
            ADrop { fault, .. } => 23 + 100 * (*fault > 0) as u64,
            MapNew { closure, exit, .. } => 24 + 100 * (exit.split().0 as u64) + 1000 * (*closure as u64),
            FromFnNew { exit, .. } => 25 + 100 * (exit.split().0 as u64),
            MapOld { exit, .. } => 26 + 100 * (exit.split().0 as u64),
            FromFnOld { exit, .. } => 27 + 100 * (exit.split().0 as u64),
            Destructure { shape } => 28 + 100 * (*shape as u64),
            HDrop { .. } => 29,
            CopyScenario { .. } => 30,
            ZstScenario { .. } => 31,
            BigScenario { .. } => 32,
            CCloneFrom { .. } => 33,
            BCloneFrom { .. } => 34,
        }
    }
}

#[derive(Serialize, Deserialize, Clone, Debug)]
pub struct FCase {
    pub plan: Vec<FOp>,
}

#[derive(Clone, Debug)]
pub enum MObj {
    Arr(usize, Vec<u32>),
    Cons(usize, VecDeque<u32>),
    Build(usize, Vec<u32>),
}

#[derive(Clone, Copy, PartialEq, Debug)]
pub enum Kind {
    Arr,
    Cons,
    Build,
}

/// What the executor must observe for one operation.
#[derive(Debug, Clone, PartialEq)]
pub enum Exp {
    Skip,
    Unit,
    Panics,
    Taken(Option<u32>),
    Slice(Vec<u32>),
    BuilderObs { len: usize, full: bool, ids: Vec<u32> },
    Debug(String),
    /// a new container/array with exactly these ids (clones: parents given)
    NewObj { ids: Vec<u32>, parents: Option<Vec<u32>> },
    EarlyReturn,
    Destructured { bound: Vec<u32>, dropped: Vec<u32> },
}

/// arity, and for each position: true = bound (handed to the caller), false = matched by `_`/`..`
pub fn shape_layout(shape: u8) -> Vec<bool> {
    match shape % N_SHAPES {
        0 => vec![true],                                  // (a,)
        1 => vec![true, true],                            // (a, b)
        2 => vec![true, false, true],                     // (a, _, c)
        3 => vec![true; 6],                               // 6-tuple
        4 => (0..16).map(|i| i % 5 != 3).collect(),       // 16-tuple with some `_`
        5 => vec![true, true, true],                      // [a, b, c]
        6 => vec![true; 5],                               // [a, rest @ .., z]
        7 => vec![false, false, false, false, true],      // [.., z]
        8 => vec![false, true, false, false, false],      // [_, b, ..]
        9 => vec![],                                      // [] and ()
        10 => vec![true, true, true],                     // S3 {x, y, z}
        11 => vec![true, false, true],                    // S3 {x: a, y: _, z: c}: S3
        12 => vec![true, true, true],                     // T3(a, b, c)
        13 => vec![true, true],                           // G::<Tok, Tok> {a, b}
        14 => vec![true, true],                           // packed struct
        15 => vec![true, true],                           // struct with ZST / unit fields
        16 => vec![true, false],                          // generic tuple struct, type form
        17 => vec![false, true, true, false, false, true, true, false], // [_, (b), c, .., x, y, _] over 8
        18 => vec![true; 5],                              // [rest @ .., z]
        19 => vec![true; 5],                              // [a, rest @ ..]
        20 => vec![false, false, false],                  // [..] alone
        21 => vec![true, true, true],                     // multi-segment path: crate::..::S3 {x, y, z}
        22 => vec![true, false],                          // [a] and [_]
        23 => vec![true, true, true],                     // S3 {z, x, y}: pattern order differs from declaration order
        24 => vec![true, false, true],                    // T3(a, _, c)
        25 => vec![true, true],                           // [a, rest @ .., z] over 2 elements (empty rest)
        _ => vec![true, true],                            // #[repr(C, packed(2))] struct: fields 2-aligned, Tok needs 4
    }
}

pub struct Model {
    pub objs: Vec<Option<MObj>>,
    pub held: Vec<u32>,
    /// allowed drop count range per id
    pub exp: Vec<(u32, u32)>,
    pub next_id: u32,
    /// ids leaked by the caller on purpose (mem::forget)
    pub leaked: Vec<u32>,
}

impl Model {
    pub fn new() -> Self {
        Model { objs: Vec::new(), held: Vec::new(), exp: Vec::new(), next_id: 0, leaked: Vec::new() }
    }
    fn alloc(&mut self, n: usize, range: (u32, u32)) -> Vec<u32> {
        let ids: Vec<u32> = (self.next_id..self.next_id + n as u32).collect();
        self.next_id += n as u32;
        for _ in 0..n {
            self.exp.push(range);
        }
        ids
    }
    fn set(&mut self, ids: &[u32], range: (u32, u32)) {
        for id in ids {
            self.exp[*id as usize] = range;
        }
    }
    pub fn live_objs(&self) -> usize {
        self.objs.iter().filter(|o| o.is_some()).count()
    }
    pub fn resolve(&self, kind: Kind, o: usize) -> Option<usize> {
        let idx: Vec<usize> = self
            .objs
            .iter()
            .enumerate()
            .filter(|(_, x)| match (x, kind) {
                (Some(MObj::Arr(..)), Kind::Arr) | (Some(MObj::Cons(..)), Kind::Cons) | (Some(MObj::Build(..)), Kind::Build) => true,
                _ => false,
            })
            .map(|(i, _)| i)
            .collect();
        if idx.is_empty() {
            None
        } else {
            Some(idx[o % idx.len()])
        }
    }
    pub fn count(&self, kind: Kind) -> usize {
        self.objs.iter().filter(|x| matches!((x, kind), (Some(MObj::Arr(..)), Kind::Arr) | (Some(MObj::Cons(..)), Kind::Cons) | (Some(MObj::Build(..)), Kind::Build))).count()
    }
    /// another live object of the same kind and N as slot `d` (chosen by `c`)
    pub fn clone_from_source(&self, kind: Kind, d: usize, c: usize) -> Option<usize> {
        let n = match self.objs[d].as_ref()? {
            MObj::Cons(n, _) | MObj::Build(n, _) | MObj::Arr(n, _) => *n,
        };
        let cands: Vec<usize> = self
            .objs
            .iter()
            .enumerate()
            .filter(|(i, x)| {
                *i != d
                    && match (x, kind) {
                        (Some(MObj::Cons(m, _)), Kind::Cons) | (Some(MObj::Build(m, _)), Kind::Build) => *m == n,
                        _ => false,
                    }
            })
            .map(|(i, _)| i)
            .collect();
        if cands.is_empty() {
            None
        } else {
            Some(cands[c % cands.len()])
        }
    }
    fn room(&self) -> bool {
        self.live_objs() < OBJ_CAP && self.next_id < ID_CAP
    }

    /// Steps the model; returns what the executor must observe.
    pub fn apply(&mut self, op: &FOp) -> Exp {
        use FOp::*;
        match op {
            NewArray { n } => {
                if !self.room() || !NS.contains(n) {
                    return Exp::Skip;
                }
                let ids = self.alloc(*n, (0, 0));
                self.objs.push(Some(MObj::Arr(*n, ids.clone())));
                Exp::NewObj { ids, parents: None }
            }
            ToConsumer { o } => {
                let Some(s) = self.resolve(Kind::Arr, *o) else { return Exp::Skip };
                let Some(MObj::Arr(n, ids)) = self.objs[s].take() else { unreachable!() };
                self.objs[s] = Some(MObj::Cons(n, ids.into_iter().collect()));
                Exp::Unit
            }
            EmptyConsumer { n } => {
                if !self.room() || !NS.contains(n) {
                    return Exp::Skip;
                }
                self.objs.push(Some(MObj::Cons(*n, VecDeque::new())));
                Exp::Unit
            }
            CNext { o } | CNextBack { o } => {
                let Some(s) = self.resolve(Kind::Cons, *o) else { return Exp::Skip };
                let Some(MObj::Cons(_, d)) = self.objs[s].as_mut() else { unreachable!() };
                let t = if matches!(op, CNext { .. }) { d.pop_front() } else { d.pop_back() };
                if let Some(id) = t {
                    self.held.push(id);
                }
                Exp::Taken(t)
            }
            CAsSlice { o } => {
                let Some(s) = self.resolve(Kind::Cons, *o) else { return Exp::Skip };
                let Some(MObj::Cons(_, d)) = self.objs[s].as_ref() else { unreachable!() };
                Exp::Slice(d.iter().copied().collect())
            }
            CSwap { o, i, j } => {
                let Some(s) = self.resolve(Kind::Cons, *o) else { return Exp::Skip };
                let Some(MObj::Cons(_, d)) = self.objs[s].as_mut() else { unreachable!() };
                if d.is_empty() {
                    return Exp::Skip;
                }
                let l = d.len();
                d.swap(i % l, j % l);
                Exp::Unit
            }
            CClone { o, fault } | BClone { o, fault } => {
                let is_c = matches!(op, CClone { .. });
                let Some(s) = self.resolve(if is_c { Kind::Cons } else { Kind::Build }, *o) else { return Exp::Skip };
                if !self.room() {
                    return Exp::Skip;
                }
                let (n, src): (usize, Vec<u32>) = match self.objs[s].as_ref() {
                    Some(MObj::Cons(n, d)) => (*n, d.iter().copied().collect()),
                    Some(MObj::Build(n, v)) => (*n, v.clone()),
                    _ => unreachable!(),
                };
                let k = *fault as usize;
                if k >= 1 && k <= src.len() {
                    // k-th Tok::clone panics: clones made so far sit in konst's partial container
                    self.alloc(k - 1, (0, 1));
                    return Exp::Panics;
                }
                let ids = self.alloc(src.len(), (0, 0));
                self.objs.push(Some(if is_c { MObj::Cons(n, ids.iter().copied().collect()) } else { MObj::Build(n, ids.clone()) }));
                Exp::NewObj { ids, parents: Some(src) }
            }
            CDebug { o } => {
                let Some(s) = self.resolve(Kind::Cons, *o) else { return Exp::Skip };
                let Some(MObj::Cons(_, d)) = self.objs[s].as_ref() else { unreachable!() };
                Exp::Debug(format!("[{}]", d.iter().map(|i| format!("T{i}")).collect::<Vec<_>>().join(", ")))
            }
            CAssertEmpty { o } => {
                let Some(s) = self.resolve(Kind::Cons, *o) else { return Exp::Skip };
                let Some(MObj::Cons(_, d)) = self.objs[s].take() else { unreachable!() };
                if d.is_empty() {
                    Exp::Unit
                } else {
                    let ids: Vec<u32> = d.into_iter().collect();
                    self.set(&ids, (0, 1));
                    Exp::Panics
                }
            }
            CDrop { o, fault } | BDrop { o, fault } | ADrop { o, fault } => {
                let kind = match op {
                    CDrop { .. } => Kind::Cons,
                    BDrop { .. } => Kind::Build,
                    _ => Kind::Arr,
                };
                let Some(s) = self.resolve(kind, *o) else { return Exp::Skip };
                let ids: Vec<u32> = match self.objs[s].take() {
                    Some(MObj::Cons(_, d)) => d.into_iter().collect(),
                    Some(MObj::Build(_, v)) | Some(MObj::Arr(_, v)) => v,
                    None => unreachable!(),
                };
                let k = *fault as usize;
                if k >= 1 && k <= ids.len() {
                    self.set(&ids, (0, 1));
                    Exp::Panics
                } else {
                    self.set(&ids, (1, 1));
                    Exp::Unit
                }
            }
            CForget { o } | BForget { o } => {
                let kind = if matches!(op, CForget { .. }) { Kind::Cons } else { Kind::Build };
                let Some(s) = self.resolve(kind, *o) else { return Exp::Skip };
                let ids: Vec<u32> = match self.objs[s].take() {
                    Some(MObj::Cons(_, d)) => d.into_iter().collect(),
                    Some(MObj::Build(_, v)) => v,
                    _ => unreachable!(),
                };
                self.leaked.extend(ids);
                Exp::Unit
            }
            NewBuilder { n } => {
                if !self.room() || !NS.contains(n) {
                    return Exp::Skip;
                }
                self.objs.push(Some(MObj::Build(*n, Vec::new())));
                Exp::Unit
            }
            BPush { o, t } => {
                let Some(s) = self.resolve(Kind::Build, *o) else { return Exp::Skip };
                if self.held.is_empty() {
                    return Exp::Skip;
                }
                let id = self.held.remove(t % self.held.len());
                let Some(MObj::Build(n, v)) = self.objs[s].as_mut() else { unreachable!() };
                if v.len() == *n {
                    self.exp[id as usize] = (0, 1);
                    Exp::Panics
                } else {
                    v.push(id);
                    Exp::Unit
                }
            }
            BObserve { o } => {
                let Some(s) = self.resolve(Kind::Build, *o) else { return Exp::Skip };
                let Some(MObj::Build(n, v)) = self.objs[s].as_ref() else { unreachable!() };
                Exp::BuilderObs { len: v.len(), full: v.len() == *n, ids: v.clone() }
            }
            BSwap { o, i, j } => {
                let Some(s) = self.resolve(Kind::Build, *o) else { return Exp::Skip };
                let Some(MObj::Build(_, v)) = self.objs[s].as_mut() else { unreachable!() };
                if v.is_empty() {
                    return Exp::Skip;
                }
                let l = v.len();
                v.swap(i % l, j % l);
                Exp::Unit
            }
            BDebug { o } => {
                let Some(s) = self.resolve(Kind::Build, *o) else { return Exp::Skip };
                let Some(MObj::Build(n, v)) = self.objs[s].as_ref() else { unreachable!() };
                Exp::Debug(format!(
                    "ArrayBuilder {{ array: [{}], uninit_len: {} }}",
                    v.iter().map(|i| format!("T{i}")).collect::<Vec<_>>().join(", "),
                    n - v.len()
                ))
            }
            BBuild { o } => {
                let Some(s) = self.resolve(Kind::Build, *o) else { return Exp::Skip };
                let Some(MObj::Build(n, v)) = self.objs[s].take() else { unreachable!() };
                if v.len() == n {
                    self.objs[s] = Some(MObj::Arr(n, v.clone()));
                    Exp::NewObj { ids: v, parents: None }
                } else {
                    self.set(&v, (0, 1));
                    Exp::Panics
                }
            }
            BInferLen { o, c } => {
                let Some(s) = self.resolve(Kind::Build, *o) else { return Exp::Skip };
                let Some(MObj::Build(n, _)) = self.objs[s].as_ref() else { unreachable!() };
                let n = *n;
                let same: Vec<usize> = self.objs.iter().enumerate().filter(|(_, x)| matches!(x, Some(MObj::Cons(m, _)) if *m == n)).map(|(i, _)| i).collect();
                if same.is_empty() {
                    return Exp::Skip;
                }
                let _ = c;
                Exp::Unit
            }
            MapNew { o, closure, exit } => {
                let Some(s) = self.resolve(Kind::Arr, *o) else { return Exp::Skip };
                let n_in = match self.objs[s].as_ref() {
                    Some(MObj::Arr(n, _)) => *n,
                    _ => unreachable!(),
                };
                if self.next_id + n_in as u32 > ID_CAP + 40 {
                    return Exp::Skip;
                }
                let Some(MObj::Arr(n, ids)) = self.objs[s].take() else { unreachable!() };
                let (kind, k) = exit.split();
                let k = k as usize;
                let closure = closure % N_CLOSURES;
                // a function path cannot exit early
                let fires = kind != 0 && k >= 1 && k <= n && closure != 4;
                let mut out: Vec<u32> = Vec::new();
                for (i, id) in ids.iter().enumerate() {
                    let call = i + 1;
                    if fires && call == k {
                        // the element being processed is a local of the macro at the fault
                        self.exp[*id as usize] = (0, 1);
                        if kind == 3 {
                            continue; // `continue`: later calls still run
                        }
                        // panic / break / return: the untaken inputs sit in konst's consumer
                        self.set(&ids[i + 1..], (0, 1));
                        break;
                    }
                    match closure {
                        0 | 3 | 4 => out.push(*id),
                        1 => {
                            self.exp[*id as usize] = (1, 1);
                            out.extend(self.alloc(1, (0, 0)));
                        }
                        _ => {
                            self.held.push(*id);
                            out.extend(self.alloc(1, (0, 0)));
                        }
                    }
                }
                if fires {
                    self.set(&out, (0, 1));
                    if kind == 4 {
                        Exp::EarlyReturn
                    } else {
                        Exp::Panics
                    }
                } else {
                    self.objs[s] = Some(MObj::Arr(n, out.clone()));
                    Exp::NewObj { ids: out, parents: if closure == 2 { Some(ids) } else { None } }
                }
            }
            FromFnNew { n, exit, .. } | FromFnOld { n, exit, .. } => {
                if !self.room() || !NS.contains(n) {
                    return Exp::Skip;
                }
                let (kind, k) = exit.split();
                let old = matches!(op, FromFnOld { .. });
                let k = k as usize;
                // `continue` in from_fn! re-runs the same index (an infinite loop for a stateless
                // closure, as documented); the planned closure exits only on its k-th call, so the
                // second attempt at that index completes and the outcome is the ordinary one
                let fires = kind != 0 && k >= 1 && k <= *n && !(old && kind == 3);
                if fires {
                    let made = if kind == 3 { n - 1 } else { k - 1 };
                    self.alloc(made, (0, 1));
                    if kind == 4 {
                        Exp::EarlyReturn
                    } else {
                        Exp::Panics
                    }
                } else {
                    let ids = self.alloc(*n, (0, 0));
                    self.objs.push(Some(MObj::Arr(*n, ids.clone())));
                    Exp::NewObj { ids, parents: None }
                }
            }
            MapOld { o, exit } => {
                let Some(s) = self.resolve(Kind::Arr, *o) else { return Exp::Skip };
                if !self.room() {
                    return Exp::Skip;
                }
                let (kind, k) = exit.split();
                let Some(MObj::Arr(n, ids)) = self.objs[s].clone() else { unreachable!() };
                let k = k as usize;
                // `continue` in map! re-runs the same index (see from_fn! above)
                let fires = kind != 0 && kind != 3 && k >= 1 && k <= n;
                if fires {
                    self.alloc(k - 1, (0, 1));
                    if kind == 4 {
                        Exp::EarlyReturn
                    } else {
                        Exp::Panics
                    }
                } else {
                    let out = self.alloc(n, (0, 0));
                    self.objs.push(Some(MObj::Arr(n, out.clone())));
                    Exp::NewObj { ids: out, parents: Some(ids) }
                }
            }
            Destructure { shape } => {
                let layout = shape_layout(*shape);
                if self.held.len() < layout.len() {
                    return Exp::Skip;
                }
                let taken: Vec<u32> = self.held.drain(..layout.len()).collect();
                let mut bound = Vec::new();
                let mut dropped = Vec::new();
                for (id, b) in taken.iter().zip(&layout) {
                    if *b {
                        bound.push(*id);
                    } else {
                        dropped.push(*id);
                    }
                }
                self.set(&dropped, (1, 1));
                self.held.extend(bound.iter().copied());
                Exp::Destructured { bound, dropped }
            }
            HDrop { t } => {
                if self.held.is_empty() {
                    return Exp::Skip;
                }
                let id = self.held.remove(t % self.held.len());
                self.exp[id as usize] = (1, 1);
                Exp::Unit
            }
            CCloneFrom { o, c } | BCloneFrom { o, c } => {
                let kind = if matches!(op, CCloneFrom { .. }) { Kind::Cons } else { Kind::Build };
                let Some(d) = self.resolve(kind, *o) else { return Exp::Skip };
                let Some(s2) = self.clone_from_source(kind, d, *c) else { return Exp::Skip };
                if self.next_id + 40 > ID_CAP + 60 {
                    return Exp::Skip;
                }
                let src: Vec<u32> = match self.objs[s2].as_ref() {
                    Some(MObj::Cons(_, v)) => v.iter().copied().collect(),
                    Some(MObj::Build(_, v)) => v.clone(),
                    _ => unreachable!(),
                };
                let old: Vec<u32> = match self.objs[d].as_ref() {
                    Some(MObj::Cons(_, v)) => v.iter().copied().collect(),
                    Some(MObj::Build(_, v)) => v.clone(),
                    _ => unreachable!(),
                };
                // the destination's previous contents are dropped, it then holds clones of the source
                self.set(&old, (1, 1));
                let ids = self.alloc(src.len(), (0, 0));
                match self.objs[d].as_mut() {
                    Some(MObj::Cons(_, v)) => *v = ids.iter().copied().collect(),
                    Some(MObj::Build(_, v)) => *v = ids.clone(),
                    _ => unreachable!(),
                }
                Exp::NewObj { ids, parents: Some(src) }
            }
            CopyScenario { n, .. } | ZstScenario { n, .. } | BigScenario { n, .. } => {
                if NS.contains(n) {
                    Exp::Unit
                } else {
                    Exp::Skip
                }
            }
        }
    }

    /// End of run: everything still owned is dropped by the executor.
    pub fn teardown(&mut self) {
        let mut ids: Vec<u32> = self.held.drain(..).collect();
        for o in self.objs.drain(..) {
            match o {
                Some(MObj::Arr(_, v)) | Some(MObj::Build(_, v)) => ids.extend(v),
                Some(MObj::Cons(_, d)) => ids.extend(d),
                None => {}
            }
        }
        self.set(&ids, (1, 1));
    }
}

// ------------------------------------------------------------------------------------------
// planner

fn gen_exit(rng: &mut Rng, n: usize, p_fault: u64) -> Exit {
    if !rng.chance(p_fault, 100) {
        return Exit::None;
    }
    let k = rng.range(1, n + 1) as u32;
    match rng.below(4) {
        0 => Exit::Panic(k),
        1 => Exit::Break(k),
        2 => Exit::Continue(k),
        _ => Exit::Return(k),
    }
}

pub fn generate(rng: &mut Rng, cfg: &GenCfg) -> FCase {
    let thorough = cfg.tier == Tier::Thorough;
    let mut m = Model::new();
    // swarm: fault-free configuration in a third of the runs, otherwise 1-3 armed faults
    let faulty = !rng.chance(1, 3);
    let p_fault: u64 = if faulty { *rng.pick(&[10u64, 25, 50]) } else { 0 };
    let mut faults_left = if faulty { rng.range(1, 3) } else { 0 };
    let w_macro = *rng.pick(&[0u32, 3, 8]);
    let w_destr = *rng.pick(&[0u32, 3, 8]);
    let w_builder = *rng.pick(&[2u32, 6, 10]);
    let w_cons = *rng.pick(&[2u32, 6, 10]);
    let w_misc = *rng.pick(&[0u32, 1, 2]);
    let sizes: Vec<usize> = {
        let k = rng.range(1, NS.len());
        (0..k).map(|_| if rng.chance(1, 12) { 33 } else { *rng.pick(&NS[..6]) }).collect()
    };
    let max_steps = if thorough { 160 } else { 56 };
    let steps = rng.range(4, max_steps);
    let mut plan = Vec::new();
    for _ in 0..steps {
        let n = *rng.pick(&sizes);
        let o = rng.below(8) as usize;
        let mut fault = |rng: &mut Rng, len: usize| -> u32 {
            if faults_left > 0 && rng.chance(p_fault, 100) {
                faults_left -= 1;
                rng.range(1, len + 1) as u32
            } else {
                0
            }
        };
        let weights: [u32; 34] = [
            6, w_cons, 1, w_cons * 2, w_cons * 2, w_cons / 2 + 1, 1, w_cons / 2, 1, 2, w_cons / 2, w_misc, // 0..=11
            w_builder, w_builder * 3, w_builder / 2 + 1, 1, w_builder / 2, 1, w_builder, 1, w_builder / 3, w_misc, // 12..=21
            2, w_macro * 2, w_macro, w_macro, w_macro / 2, w_destr * 2, 3, w_misc, w_misc, w_misc, // 22..=31
            w_cons / 3, w_builder / 3, // 32..=33 clone_from
        ];
        let op = match rng.weighted(&weights) {
            0 => FOp::NewArray { n },
            1 => FOp::ToConsumer { o },
            2 => FOp::EmptyConsumer { n },
            3 => FOp::CNext { o },
            4 => FOp::CNextBack { o },
            5 => FOp::CAsSlice { o },
            6 => FOp::CSwap { o, i: rng.below(8) as usize, j: rng.below(8) as usize },
            7 => FOp::CClone { o, fault: fault(rng, 8) },
            8 => FOp::CDebug { o },
            9 => FOp::CAssertEmpty { o },
            10 => FOp::CDrop { o, fault: fault(rng, 8) },
            11 => FOp::CForget { o },
            12 => FOp::NewBuilder { n },
            13 => FOp::BPush { o, t: rng.below(8) as usize },
            14 => FOp::BObserve { o },
            15 => FOp::BSwap { o, i: rng.below(8) as usize, j: rng.below(8) as usize },
            16 => FOp::BClone { o, fault: fault(rng, 8) },
            17 => FOp::BDebug { o },
            18 => FOp::BBuild { o },
            19 => FOp::BInferLen { o, c: rng.below(4) as usize },
            20 => FOp::BDrop { o, fault: fault(rng, 8) },
            21 => FOp::BForget { o },
            22 => FOp::ADrop { o, fault: fault(rng, 8) },
            23 => FOp::MapNew { o, closure: rng.below(N_CLOSURES as u64) as u8, exit: gen_exit(rng, 8, p_fault) },
            24 => FOp::FromFnNew { n, exit: gen_exit(rng, n, p_fault), typed: rng.chance(1, 2) },
            25 => FOp::MapOld { o, exit: gen_exit(rng, 8, p_fault) },
            26 => FOp::FromFnOld { n, exit: gen_exit(rng, n, p_fault), typed: rng.chance(1, 2) },
            27 => FOp::Destructure { shape: rng.below(N_SHAPES as u64) as u8 },
            28 => FOp::HDrop { t: rng.below(8) as usize },
            29 => FOp::CopyScenario { n, front: rng.below(5) as usize, back: rng.below(5) as usize },
            30 => FOp::ZstScenario { n, front: rng.below(5) as usize, back: rng.below(5) as usize, clone: rng.chance(1, 2) },
            32 => FOp::CCloneFrom { o, c: rng.below(4) as usize },
            33 => FOp::BCloneFrom { o, c: rng.below(4) as usize },
            _ => FOp::BigScenario { n, front: rng.below(5) as usize, back: rng.below(5) as usize, clone: rng.chance(1, 2) },
        };
        // armed fault indices are drawn relative to the real container size where known
        let op = match op {
            FOp::CClone { o, fault } if fault > 0 => {
                let len = m.resolve(Kind::Cons, o).and_then(|s| if let Some(MObj::Cons(_, d)) = &m.objs[s] { Some(d.len()) } else { None }).unwrap_or(0);
                FOp::CClone { o, fault: 1 + (fault - 1) % (len as u32 + 1) }
            }
            FOp::CDrop { o, fault } if fault > 0 => {
                let len = m.resolve(Kind::Cons, o).and_then(|s| if let Some(MObj::Cons(_, d)) = &m.objs[s] { Some(d.len()) } else { None }).unwrap_or(0);
                FOp::CDrop { o, fault: 1 + (fault - 1) % (len as u32 + 1) }
            }
            FOp::BClone { o, fault } if fault > 0 => {
                let len = m.resolve(Kind::Build, o).and_then(|s| if let Some(MObj::Build(_, v)) = &m.objs[s] { Some(v.len()) } else { None }).unwrap_or(0);
                FOp::BClone { o, fault: 1 + (fault - 1) % (len as u32 + 1) }
            }
            FOp::BDrop { o, fault } if fault > 0 => {
                let len = m.resolve(Kind::Build, o).and_then(|s| if let Some(MObj::Build(_, v)) = &m.objs[s] { Some(v.len()) } else { None }).unwrap_or(0);
                FOp::BDrop { o, fault: 1 + (fault - 1) % (len as u32 + 1) }
            }
            FOp::MapNew { o, closure, exit } if exit != Exit::None => FOp::MapNew { o, closure, exit: fit_exit(&m, o, exit) },
            FOp::MapOld { o, exit } if exit != Exit::None => FOp::MapOld { o, exit: fit_exit(&m, o, exit) },
            other => other,
        };
        // building a builder that is not full is a misuse fault: keep it to a fraction of the builds
        if let FOp::BBuild { o } = &op {
            let full = m.resolve(Kind::Build, *o).map(|s| matches!(&m.objs[s], Some(MObj::Build(n, v)) if v.len() == *n)).unwrap_or(false);
            if !full && !rng.chance(1, 5) {
                continue;
            }
        }
        if m.apply(&op) != Exp::Skip {
            plan.push(op);
        }
    }
    FCase { plan }
}

/// draws the callback index relative to the real array length (k in 1..=len+1)
fn fit_exit(m: &Model, o: usize, exit: Exit) -> Exit {
    let len = m.resolve(Kind::Arr, o).and_then(|s| if let Some(MObj::Arr(n, _)) = &m.objs[s] { Some(*n) } else { None }).unwrap_or(0);
    let (kind, k) = exit.split();
    let k = 1 + (k.max(1) - 1) % (len as u32 + 1);
    match kind {
        1 => Exit::Panic(k),
        2 => Exit::Break(k),
        3 => Exit::Continue(k),
        _ => Exit::Return(k),
    }
}

// ------------------------------------------------------------------------------------------
// fault sweep: every (site, N, k) cell once, in an otherwise fault-free short scenario

pub fn sweep_cases() -> Vec<(String, FCase)> {
    sweep_build(&|_| true, true).0
}

/// `want(i)`: materialise cell i; `names`: format the names (of all cells). Both are costly under
/// Miri, so batch loops ask for exactly what they need. Returns the entries and the cell count.
pub fn sweep_build(want: &dyn Fn(u64) -> bool, names: bool) -> (Vec<(String, FCase)>, u64) {
    let mut out = SweepOut { v: Vec::new(), idx: 0, want, names };
    for &n in NS.iter() {
        // consumer half-taken from both ends
        let mut cons_prefix = vec![FOp::NewArray { n }, FOp::ToConsumer { o: 0 }];
        let mut taken = 0;
        if n >= 2 {
            cons_prefix.push(FOp::CNext { o: 0 });
            cons_prefix.push(FOp::CNextBack { o: 0 });
            taken = 2;
        }
        let remaining = n - taken;
        // builder half-filled (tokens come from a drained consumer)
        let mut build_prefix = vec![FOp::NewArray { n }, FOp::ToConsumer { o: 0 }];
        for _ in 0..n {
            build_prefix.push(FOp::CNext { o: 0 });
        }
        build_prefix.push(FOp::NewBuilder { n });
        let filled = (n + 1) / 2;
        for _ in 0..filled {
            build_prefix.push(FOp::BPush { o: 0, t: 0 });
        }
        for k in 1..=(n as u32 + 1) {
            if n > 8 && ![1, 2, 17, 32, 33, 34].contains(&k) {
                continue;
            }
            let mut p = cons_prefix.clone();
            p.push(FOp::CClone { o: 0, fault: k });
            p.push(FOp::CAsSlice { o: 0 });
            out.emit(&|| format!("consumer-clone/N={n}/k={k}/remaining={remaining}"), p);
            let mut p = cons_prefix.clone();
            p.push(FOp::CDrop { o: 0, fault: k });
            out.emit(&|| format!("consumer-drop/N={n}/k={k}/remaining={remaining}"), p);
            let mut p = build_prefix.clone();
            p.push(FOp::BClone { o: 0, fault: k });
            p.push(FOp::BObserve { o: 0 });
            out.emit(&|| format!("builder-clone/N={n}/k={k}/filled={filled}"), p);
            let mut p = build_prefix.clone();
            p.push(FOp::BDrop { o: 0, fault: k });
            out.emit(&|| format!("builder-drop/N={n}/k={k}/filled={filled}"), p);
            for (ename, mk) in [
                ("panic", Exit::Panic as fn(u32) -> Exit),
                ("break", Exit::Break as fn(u32) -> Exit),
                ("continue", Exit::Continue as fn(u32) -> Exit),
                ("return", Exit::Return as fn(u32) -> Exit),
            ] {
                for closure in 0..N_CLOSURES {
                    out.emit(&|| format!("map_/closure={closure}/{ename}/N={n}/k={k}"), vec![FOp::NewArray { n }, FOp::MapNew { o: 0, closure, exit: mk(k) }]);
                }
                for typed in [false, true] {
                    out.emit(&|| format!("from_fn_/typed={typed}/{ename}/N={n}/k={k}"), vec![FOp::FromFnNew { n, exit: mk(k), typed }]);
                }
                out.emit(&|| format!("map!/{ename}/N={n}/k={k}"), vec![FOp::NewArray { n }, FOp::MapOld { o: 0, exit: mk(k) }]);
                for typed in [false, true] {
                    out.emit(&|| format!("from_fn!/typed={typed}/{ename}/N={n}/k={k}"), vec![FOp::FromFnOld { n, exit: mk(k), typed }]);
                }
            }
        }
        // misuse cells
        let mut p = cons_prefix.clone();
        p.push(FOp::CAssertEmpty { o: 0 });
        out.emit(&|| format!("misuse-assert_is_empty/N={n}/remaining={remaining}"), p);
        let mut p = build_prefix.clone();
        p.push(FOp::BBuild { o: 0 });
        out.emit(&|| format!("misuse-build-not-full/N={n}/filled={filled}"), p);
        let mut p = build_prefix.clone();
        for _ in filled..n {
            p.push(FOp::BPush { o: 0, t: 0 });
        }
        // one more token to push onto the full builder
        p.push(FOp::NewArray { n: 1 });
        p.push(FOp::ToConsumer { o: 0 });
        p.push(FOp::CNext { o: 9 });
        p.push(FOp::CNext { o: 8 });
        p.push(FOp::BPush { o: 0, t: 0 });
        p.push(FOp::BObserve { o: 0 });
        p.push(FOp::BBuild { o: 0 });
        out.emit(&|| format!("misuse-push-full/N={n}"), p);
    }
    // fault-free exhaustion cells: steps on drained / empty containers, clones of them, zero-length builds
    for &n in NS.iter() {
        let mut p = vec![FOp::NewArray { n }, FOp::ToConsumer { o: 0 }];
        for _ in 0..n + 1 {
            p.push(FOp::CNext { o: 0 });
        }
        p.extend([FOp::CNextBack { o: 0 }, FOp::CNextBack { o: 0 }, FOp::CAsSlice { o: 0 }, FOp::CClone { o: 0, fault: 0 }, FOp::CAsSlice { o: 1 }, FOp::CNext { o: 1 }, FOp::CDebug { o: 0 }, FOp::CAssertEmpty { o: 0 }, FOp::CDrop { o: 0, fault: 0 }]);
        out.emit(&|| format!("exhaustion/consumer-drained-from-front/N={n}"), p);
        let mut p = vec![FOp::NewArray { n }, FOp::ToConsumer { o: 0 }];
        for _ in 0..n + 1 {
            p.push(FOp::CNextBack { o: 0 });
        }
        p.extend([FOp::CNext { o: 0 }, FOp::CAsSlice { o: 0 }, FOp::CSwap { o: 0, i: 0, j: 1 }, FOp::CClone { o: 0, fault: 0 }, FOp::CDrop { o: 0, fault: 0 }, FOp::CDrop { o: 0, fault: 0 }]);
        out.emit(&|| format!("exhaustion/consumer-drained-from-back/N={n}"), p);
        out.emit(&|| format!("exhaustion/empty-consumer/N={n}"), vec![FOp::EmptyConsumer { n }, FOp::CNext { o: 0 }, FOp::CNextBack { o: 0 }, FOp::CAsSlice { o: 0 }, FOp::CClone { o: 0, fault: 0 }, FOp::CDebug { o: 1 }, FOp::CCloneFrom { o: 0, c: 0 }, FOp::CAssertEmpty { o: 1 }, FOp::CDrop { o: 0, fault: 0 }]);
        let mut p = vec![FOp::NewArray { n }, FOp::ToConsumer { o: 0 }];
        for i in 0..n {
            p.push(if i % 2 == 0 { FOp::CNext { o: 0 } } else { FOp::CNextBack { o: 0 } });
        }
        p.extend([FOp::NewBuilder { n }, FOp::BObserve { o: 0 }, FOp::BDebug { o: 0 }]);
        for _ in 0..n {
            p.push(FOp::BPush { o: 0, t: 0 });
        }
        p.extend([FOp::BObserve { o: 0 }, FOp::BSwap { o: 0, i: 0, j: 1 }, FOp::BClone { o: 0, fault: 0 }, FOp::BInferLen { o: 0, c: 0 }, FOp::BBuild { o: 0 }, FOp::BBuild { o: 0 }, FOp::ToConsumer { o: 0 }, FOp::CNextBack { o: 1 }, FOp::MapNew { o: 0, closure: 0, exit: Exit::None }, FOp::ADrop { o: 0, fault: 0 }]);
        out.emit(&|| format!("exhaustion/builder-fill-clone-build-recirculate/N={n}"), p);
    }
    // every destructure! shape once (no fault: the by-value reads themselves are the subject; under
    // Miri this is where a misaligned or out-of-bounds read of a field shows)
    for shape in 0..N_SHAPES {
        let mut p = vec![FOp::NewArray { n: 8 }, FOp::NewArray { n: 8 }, FOp::ToConsumer { o: 0 }, FOp::ToConsumer { o: 0 }];
        for i in 0..16 {
            p.push(if i % 2 == 0 { FOp::CNext { o: i / 8 } } else { FOp::CNextBack { o: i / 8 } });
        }
        p.push(FOp::Destructure { shape });
        out.emit(&|| format!("destructure/shape={shape}"), p);
    }
    let n = out.len();
    (out.v, n)
}

struct SweepOut<'a> {
    v: Vec<(String, FCase)>,
    idx: u64,
    want: &'a dyn Fn(u64) -> bool,
    names: bool,
}
impl SweepOut<'_> {
    fn emit(&mut self, name: &dyn Fn() -> String, plan: Vec<FOp>) {
        if (self.want)(self.idx) {
            self.v.push((if self.names { name() } else { String::new() }, FCase { plan }));
        } else if self.names {
            self.v.push((name(), FCase { plan: Vec::new() }));
        }
        self.idx += 1;
    }
    fn len(&self) -> u64 {
        self.idx
    }
}
