//! World E: the compile-time string `Parser`, driven at run time.
//!
//! Handles: up to `HANDLE_CAP` parsers (forked by `Copy`) over one text.
//! Oracles:
//!  * C13 — self-consistency of positions: remainder == text[start-base .. end-base] (content
//!    and address), offsets on char boundaries, parse_direction names the end worked from,
//!    error offset/direction rule.
//!  * C14 — each operation transforms the remainder like konst's own free string function
//!    applied to the pre-operation remainder, succeeds exactly when it finds something, error
//!    kinds, the one-shot split flag, and the four split protocols against std.
//!  * C01 — every returned &str lies inside the text, is valid UTF-8, on char boundaries.

use crate::kernel::*;
use crate::prng::{mix, Rng};
use konst::parsing::{ErrorKind, ParseDirection, ParseError, Parser};
use konst::string as ks;
use serde::{Deserialize, Serialize};

pub const HANDLE_CAP: usize = 3;

#[derive(Serialize, Deserialize, Clone, Debug, PartialEq)]
pub enum Pat {
    S(String),
    C(char),
}

impl Pat {
    fn as_string(&self) -> String {
        match self {
            Pat::S(s) => s.clone(),
            Pat::C(c) => c.to_string(),
        }
    }
}

macro_rules! with_pat {
    ($pat:expr, |$p:ident| $body:expr) => {
        match $pat {
            Pat::S(s) => {
                let $p: &str = s.as_str();
                $body
            }
            Pat::C(c) => {
                let $p: char = *c;
                $body
            }
        }
    };
}

#[derive(Serialize, Deserialize, Clone, Copy, Debug, PartialEq)]
pub enum IntTy {
    U8,
    U16,
    U32,
    U64,
    U128,
    Usize,
    I8,
    I16,
    I32,
    I64,
    I128,
    Isize,
}
pub const INT_TYS: [IntTy; 12] = [
    IntTy::U8,
    IntTy::U16,
    IntTy::U32,
    IntTy::U64,
    IntTy::U128,
    IntTy::Usize,
    IntTy::I8,
    IntTy::I16,
    IntTy::I32,
    IntTy::I64,
    IntTy::I128,
    IntTy::Isize,
];
impl IntTy {
    fn signed(self) -> bool {
        matches!(
            self,
            IntTy::I8 | IntTy::I16 | IntTy::I32 | IntTy::I64 | IntTy::I128 | IntTy::Isize
        )
    }
}

#[derive(Serialize, Deserialize, Clone, Debug, PartialEq)]
#[serde(tag = "op")]
pub enum POp {
    Trim { h: usize },
    TrimStart { h: usize },
    TrimEnd { h: usize },
    TrimMatches { h: usize, p: Pat },
    TrimStartMatches { h: usize, p: Pat },
    TrimEndMatches { h: usize, p: Pat },
    StripPrefix { h: usize, p: Pat },
    StripSuffix { h: usize, p: Pat },
    FindSkip { h: usize, p: Pat },
    RfindSkip { h: usize, p: Pat },
    Split { h: usize, p: Pat },
    Rsplit { h: usize, p: Pat },
    SplitTerminator { h: usize, p: Pat },
    RsplitTerminator { h: usize, p: Pat },
    SplitKeep { h: usize, p: Pat },
    Skip { h: usize, n: usize },
    SkipBack { h: usize, n: usize },
    ParseInt {
        h: usize,
        ty: IntTy,
        /// through `konst::parse_with!(parser, T)` instead of the inherent method
        #[serde(default)]
        via_macro: bool,
    },
    ParseBool {
        h: usize,
        #[serde(default)]
        via_macro: bool,
    },
    IntoError { h: usize, kind: u8 },
    IntoOtherError { h: usize },
    Fork { h: usize },
    Drop { h: usize },
    /// one of the fixed `parser_method!` forms
    Pm { h: usize, form: u8 },
    /// protocol sub-scenario on a fork: repeat a split-family method until it fails
    Proto { h: usize, kind: u8, p: Pat },
}

impl POp {
    fn handle(&self) -> usize {
        use POp::*;
        match self {
            Trim { h }
            | TrimStart { h }
            | TrimEnd { h }
            | TrimMatches { h, .. }
            | TrimStartMatches { h, .. }
            | TrimEndMatches { h, .. }
            | StripPrefix { h, .. }
            | StripSuffix { h, .. }
            | FindSkip { h, .. }
            | RfindSkip { h, .. }
            | Split { h, .. }
            | Rsplit { h, .. }
            | SplitTerminator { h, .. }
            | RsplitTerminator { h, .. }
            | SplitKeep { h, .. }
            | Skip { h, .. }
            | SkipBack { h, .. }
            | ParseInt { h, .. }
            | ParseBool { h, .. }
            | IntoError { h, .. }
            | IntoOtherError { h }
            | Fork { h }
            | Drop { h }
            | Pm { h, .. }
            | Proto { h, .. } => *h,
        }
    }
    fn kind_id(&self) -> u64 {
        use POp::*;
        match self {
            Trim { .. } => 1,
            TrimStart { .. } => 2,
            TrimEnd { .. } => 3,
            TrimMatches { .. } => 4,
            TrimStartMatches { .. } => 5,
            TrimEndMatches { .. } => 6,
            StripPrefix { .. } => 7,
            StripSuffix { .. } => 8,
            FindSkip { .. } => 9,
            RfindSkip { .. } => 10,
            Split { .. } => 11,
            Rsplit { .. } => 12,
            SplitTerminator { .. } => 13,
            RsplitTerminator { .. } => 14,
            SplitKeep { .. } => 15,
            Skip { .. } => 16,
            SkipBack { .. } => 17,
            ParseInt { ty, .. } => 18 + 100 * (*ty as u64 + 1),
            ParseBool { .. } => 19,
            IntoError { .. } => 20,
            IntoOtherError { .. } => 21,
            Fork { .. } => 22,
            Drop { .. } => 23,
            Pm { form, .. } => 24 + 100 * (*form as u64 + 1),
            Proto { kind, .. } => 25 + 100 * (*kind as u64 + 1),
        }
    }
    fn pat_mut(&mut self) -> Option<&mut Pat> {
        use POp::*;
        match self {
            TrimMatches { p, .. }
            | TrimStartMatches { p, .. }
            | TrimEndMatches { p, .. }
            | StripPrefix { p, .. }
            | StripSuffix { p, .. }
            | FindSkip { p, .. }
            | RfindSkip { p, .. }
            | Split { p, .. }
            | Rsplit { p, .. }
            | SplitTerminator { p, .. }
            | RsplitTerminator { p, .. }
            | SplitKeep { p, .. }
            | Proto { p, .. } => Some(p),
            _ => None,
        }
    }
}

#[derive(Serialize, Deserialize, Clone, Debug)]
pub struct ParserCase {
    pub text: String,
    pub base: u64,
    pub plan: Vec<POp>,
}

pub struct ParserWorld;

// ------------------------------------------------------------------------------------------
// Planner

const TOKENS: &[&str] = &[
    "a", "ab", "aab", ",", " ", "\t", "\n", "-", "0", "12", "255", "256", "65536", "-128", "-129",
    "true", "false", "é", "€", "😀", "b", "aa", ",,", "007", "4294967296", "-2147483649",
    "18446744073709551616", "-9223372036854775809", "340282366920938463463374607431768211456",
    "-170141183460469231731687303715884105729", "x", "\r", "\u{b}", "\u{c}",
    // multi-byte chars whose continuation bytes are an ASCII whitespace/delimiter byte | 0x80, or a
    // Latin-1 space (0x85 NEL, 0xA0 NBSP): a byte-wise trim/strip that confuses them cuts inside a char
    // exact MIN / MAX (and one beyond) of every integer width, leading zeros
    "65535", "32767", "-32768", "32768", "-32769", "4294967295", "2147483647", "-2147483648", "2147483648",
    "18446744073709551615", "9223372036854775807", "-9223372036854775808", "9223372036854775808",
    "340282366920938463463374607431768211455", "170141183460469231731687303715884105727",
    "-170141183460469231731687303715884105728", "170141183460469231731687303715884105728",
    "-340282366920938463463374607431768211456", "-999999999999999999999999999999999999999999", "99999999999999999999999999999999999999999",
    "¬", "À", "\u{3000}", "ì",
    // one char at each boundary of the UTF-8 lead-byte classes
    "\u{80}", "\u{7ff}", "\u{800}", "\u{fff}", "\u{d7ff}", "\u{e000}", "\u{f000}", "\u{feff}", "\u{ffff}", "\u{10000}", "\u{3ffff}", "\u{10ffff}",
    "127", "128", "-0", "0255", "00000256", "-00128", "000000000000000000000000000000000000000001",
    "à", "\u{a0}", "Å", "É", "Ê", "\u{8d}", "😅", "\u{2028}", "\u{85}", "ᄀ", "\u{ac}",
    // look-alikes of é € 😀: same leading bytes, different last byte (partial matches defeated on a continuation byte)
    "ê", "\u{20ad}", "\u{1f601}", "\u{2200}",
];

const FIXED_PATS: &[&str] = &[
    "", "a", "aa", "ab", "aab", ",", ",,", " ", "é", "€a", "-", "true", "b", "aba", "abab", "0",
    "😀", "a,",
];
const FIXED_CHARS: &[char] = &['a', ',', '€', ' ', 'é', '😀', '-', 'b', '0', '\n', 'à', '\u{a0}', '😅'];

/// reference model used by the planner only: the remainder as a byte range of the text,
/// advanced with std's own string methods
#[derive(Clone, Copy)]
struct PM {
    lo: usize,
    hi: usize,
    flag: bool,
}

fn sub_on_boundaries(rng: &mut Rng, s: &str) -> String {
    if s.is_empty() {
        return String::new();
    }
    let idx: Vec<usize> = s
        .char_indices()
        .map(|(i, _)| i)
        .chain(std::iter::once(s.len()))
        .collect();
    let a = rng.range(0, idx.len() - 1);
    let cap = if rng.chance(1, 10) { 40 } else { 4 };
    let maxspan = (idx.len() - 1 - a).min(cap);
    let b = a + rng.range(0, maxspan);
    s[idx[a]..idx[b]].to_string()
}

fn gen_pat(rng: &mut Rng, rem: &str) -> Pat {
    match rng.below(10) {
        0..=2 => Pat::S(rng.pick(FIXED_PATS).to_string()),
        3..=4 => Pat::C(*rng.pick(FIXED_CHARS)),
        5 => {
            // a char of the remainder
            let cs: Vec<char> = rem.chars().collect();
            if cs.is_empty() {
                Pat::C('a')
            } else {
                Pat::C(*rng.pick(&cs))
            }
        }
        6 => {
            // prefix of the remainder
            let cs: Vec<usize> = rem.char_indices().map(|(i, _)| i).chain([rem.len()]).collect();
            let k = rng.range(0, (cs.len() - 1).min(3));
            Pat::S(rem[..cs[k]].to_string())
        }
        7 => {
            let cs: Vec<usize> = rem.char_indices().map(|(i, _)| i).chain([rem.len()]).collect();
            let k = rng.range(0, (cs.len() - 1).min(3));
            Pat::S(rem[cs[cs.len() - 1 - k]..].to_string())
        }
        _ => Pat::S(sub_on_boundaries(rng, rem)),
    }
}

fn model_apply(text: &str, m: &mut PM, op: &POp) {
    let r = &text[m.lo..m.hi];
    let off = |s: &str| s.as_ptr() as usize - text.as_ptr() as usize;
    let set = |m: &mut PM, s: &str| {
        m.lo = off(s);
        m.hi = m.lo + s.len();
    };
    let ws = |c: char| c.is_ascii_whitespace() || c == '\u{b}';
    use POp::*;
    match op {
        Trim { .. } => set(m, r.trim_matches(ws)),
        TrimStart { .. } => set(m, r.trim_start_matches(ws)),
        TrimEnd { .. } => set(m, r.trim_end_matches(ws)),
        TrimMatches { p, .. } => {
            let p = p.as_string();
            if !p.is_empty() {
                let s = r.trim_start_matches(p.as_str());
                set(m, s.trim_end_matches(p.as_str()))
            }
        }
        TrimStartMatches { p, .. } => {
            let p = p.as_string();
            if !p.is_empty() {
                set(m, r.trim_start_matches(p.as_str()))
            }
        }
        TrimEndMatches { p, .. } => {
            let p = p.as_string();
            if !p.is_empty() {
                set(m, r.trim_end_matches(p.as_str()))
            }
        }
        StripPrefix { p, .. } => {
            if let Some(s) = r.strip_prefix(p.as_string().as_str()) {
                set(m, s)
            }
        }
        StripSuffix { p, .. } => {
            if let Some(s) = r.strip_suffix(p.as_string().as_str()) {
                set(m, s)
            }
        }
        FindSkip { p, .. } => {
            let p = p.as_string();
            if let Some(i) = r.find(p.as_str()) {
                set(m, &r[i + p.len()..])
            }
        }
        RfindSkip { p, .. } => {
            let p = p.as_string();
            if p.is_empty() {
            } else if let Some(i) = r.rfind(p.as_str()) {
                set(m, &r[..i])
            }
        }
        Split { p, .. } | SplitKeep { p, .. } => {
            if !m.flag {
                let p = p.as_string();
                let keep = matches!(op, SplitKeep { .. });
                match r.find(p.as_str()) {
                    Some(i) => set(m, &r[i + if keep { 0 } else { p.len() }..]),
                    None => {
                        m.flag = true;
                        set(m, &r[r.len()..])
                    }
                }
            }
        }
        Rsplit { p, .. } => {
            if !m.flag {
                let p = p.as_string();
                match r.rfind(p.as_str()) {
                    Some(i) if !p.is_empty() => set(m, &r[..i]),
                    Some(_) => {}
                    None => {
                        m.flag = true;
                        set(m, &r[..0])
                    }
                }
            }
        }
        SplitTerminator { p, .. } => {
            if !m.flag && !r.is_empty() {
                let p = p.as_string();
                if let Some(i) = r.find(p.as_str()) {
                    set(m, &r[i + p.len()..]);
                    m.flag = m.lo == m.hi;
                }
            }
        }
        RsplitTerminator { p, .. } => {
            if !m.flag && !r.is_empty() {
                let p = p.as_string();
                if p.is_empty() {
                } else if let Some(i) = r.rfind(p.as_str()) {
                    set(m, &r[..i]);
                    m.flag = m.lo == m.hi;
                }
            }
        }
        Skip { n, .. } => {
            let mut k = (*n).min(r.len());
            while !r.is_char_boundary(k) {
                k += 1;
            }
            set(m, &r[k..])
        }
        SkipBack { n, .. } => {
            let mut k = r.len().saturating_sub(*n);
            while !r.is_char_boundary(k) {
                k -= 1;
            }
            set(m, &r[..k])
        }
        ParseInt { ty, .. } => {
            if let Some(pre) = int_prefix(r, ty.signed()) {
                // approximate: assume it fits (bias only)
                if pre.len() < 4 {
                    set(m, &r[pre.len()..])
                }
            }
        }
        ParseBool { .. } => {
            if r.starts_with("true") {
                set(m, &r[4..])
            } else if r.starts_with("false") {
                set(m, &r[5..])
            }
        }
        _ => {}
    }
}

impl World for ParserWorld {
    type Case = ParserCase;
    const NAME: &'static str = "parser";

    fn generate(rng: &mut Rng, cfg: &GenCfg) -> ParserCase {
        let thorough = cfg.tier == Tier::Thorough;
        // swarm: token subset for this run
        let mut toks: Vec<&str> = Vec::new();
        let ntok = rng.range(2, 9);
        for _ in 0..ntok {
            let limit = if rng.chance(1, 3) { TOKENS.len() } else { 22 };
            toks.push(TOKENS[rng.below(limit as u64) as usize]);
        }
        // occasionally long texts (length thresholds such as 16/32/64/256 bytes in a search loop)
        let long = rng.chance(1, 24);
        let max_chars = if long { *rng.pick(&[40usize, 70, 140, 300]) } else if thorough { 28 } else { 16 };
        let mut text = String::new();
        let pieces = if long { max_chars } else { rng.range(0, if thorough { 12 } else { 8 }) };
        for _ in 0..pieces {
            let t = *rng.pick(&toks);
            if text.chars().count() + t.chars().count() > max_chars && !(t.len() > 16 && text.chars().count() <= 3) {
                continue;
            }
            text.push_str(t);
        }
        let len = text.len() as u64;
        let room = u32::MAX as u64 - len;
        let base: u64 = match rng.below(14) {
            0..=4 => 0,
            5 => 1,
            6 => 7,
            7 => 1000,
            8 => rng.below(1 << 20),
            9 => room - *rng.pick(&[0u64, 1, 5]),
            // regions where u32 arithmetic, sign or power-of-two boundaries could matter
            10 => ((1u64 << 31) - len / 2).min(room) + rng.below(3),
            11 => ((1u64 << *rng.pick(&[8u64, 16, 24, 31])) - rng.below(len + 2).min(1 << 7)).min(room),
            12 => rng.below(room + 1),
            _ => (1u64 << 31).min(room) + rng.below(1 << 20).min(room - (1u64 << 31).min(room)),
        }
        .min(room);
        // swarm: operation weights
        let one_sided = rng.chance(1, 5);
        let front_only = rng.chance(1, 2);
        let w_fork = if rng.chance(1, 3) { 0 } else { 3 };
        let w_split = *rng.pick(&[0u32, 4, 8, 16]);
        let w_parse = *rng.pick(&[0u32, 3, 6]);
        let w_trim = *rng.pick(&[1u32, 4, 8]);
        let w_pm = *rng.pick(&[0u32, 2, 4]);
        let w_proto = *rng.pick(&[0u32, 1, 2]);
        let back = |w: u32| if one_sided && front_only { 0 } else { w };
        let front = |w: u32| if one_sided && !front_only { 0 } else { w };
        let weights: [u32; 25] = [
            w_trim,          // 0 Trim
            front(w_trim),   // 1 TrimStart
            back(w_trim),    // 2 TrimEnd
            w_trim,          // 3 TrimMatches
            front(w_trim),   // 4 TrimStartMatches
            back(w_trim),    // 5 TrimEndMatches
            front(6),        // 6 StripPrefix
            back(6),         // 7 StripSuffix
            front(5),        // 8 FindSkip
            back(5),         // 9 RfindSkip
            front(w_split),  // 10 Split
            back(w_split),   // 11 Rsplit
            front(w_split),  // 12 SplitTerminator
            back(w_split),   // 13 RsplitTerminator
            front(w_split / 2), // 14 SplitKeep
            front(4),        // 15 Skip
            back(4),         // 16 SkipBack
            front(w_parse),  // 17 ParseInt
            front(w_parse / 3), // 18 ParseBool
            2,               // 19 IntoError
            1,               // 20 IntoOtherError
            w_fork,          // 21 Fork
            w_fork / 3,      // 22 Drop
            w_pm,            // 23 Pm
            w_proto,         // 24 Proto
        ];

        let max_steps = if thorough { 192 } else { 48 };
        let steps = rng.range(1, max_steps);
        let steps = if rng.chance(1, 2) { steps.min(12) } else { steps };
        let mut models: Vec<Option<PM>> = vec![Some(PM { lo: 0, hi: text.len(), flag: false })];
        let mut plan = Vec::with_capacity(steps);
        for _ in 0..steps {
            let live: Vec<usize> = models
                .iter()
                .enumerate()
                .filter(|(_, m)| m.is_some())
                .map(|(i, _)| i)
                .collect();
            if live.is_empty() {
                break;
            }
            let h = *rng.pick(&live);
            let m = models[h].unwrap();
            let rem = &text[m.lo..m.hi];
            let k = rng.weighted(&weights);
            let op = match k {
                0 => POp::Trim { h },
                1 => POp::TrimStart { h },
                2 => POp::TrimEnd { h },
                3 => POp::TrimMatches { h, p: gen_pat(rng, rem) },
                4 => POp::TrimStartMatches { h, p: gen_pat(rng, rem) },
                5 => POp::TrimEndMatches { h, p: gen_pat(rng, rem) },
                6 => POp::StripPrefix { h, p: gen_pat(rng, rem) },
                7 => POp::StripSuffix { h, p: gen_pat(rng, rem) },
                8 => POp::FindSkip { h, p: gen_pat(rng, rem) },
                9 => POp::RfindSkip { h, p: gen_pat(rng, rem) },
                10 => POp::Split { h, p: gen_pat(rng, rem) },
                11 => POp::Rsplit { h, p: gen_pat(rng, rem) },
                12 => POp::SplitTerminator { h, p: gen_pat(rng, rem) },
                13 => POp::RsplitTerminator { h, p: gen_pat(rng, rem) },
                14 => POp::SplitKeep { h, p: gen_pat(rng, rem) },
                15 => POp::Skip { h, n: rng.range(0, rem.len() + 3) },
                16 => POp::SkipBack { h, n: rng.range(0, rem.len() + 3) },
                17 => POp::ParseInt { h, ty: *rng.pick(&INT_TYS), via_macro: rng.chance(1, 3) },
                18 => POp::ParseBool { h, via_macro: rng.chance(1, 3) },
                19 => POp::IntoError { h, kind: rng.below(7) as u8 },
                20 => POp::IntoOtherError { h },
                21 => POp::Fork { h },
                22 => POp::Drop { h },
                23 => POp::Pm { h, form: rng.below(PM_FORMS as u64) as u8 },
                _ => POp::Proto { h, kind: rng.below(4) as u8, p: gen_pat(rng, rem) },
            };
            // step the planner's model
            match &op {
                POp::Fork { h } => {
                    if models.len() < HANDLE_CAP {
                        let c = models[*h];
                        models.push(c);
                    }
                }
                POp::Drop { h } => {
                    if live.len() > 1 {
                        models[*h] = None;
                    } else {
                        continue;
                    }
                }
                other => {
                    let mut mm = m;
                    model_apply(&text, &mut mm, other);
                    models[h] = Some(mm);
                }
            }
            plan.push(op);
        }
        ParserCase { text, base, plan }
    }

    fn execute(case: &ParserCase, ctx: &mut Ctx) -> Res {
        exec(case, ctx)
    }

    fn shrink(case: &ParserCase) -> Vec<ParserCase> {
        let mut out = Vec::new();
        for plan in shrink_list(&case.plan) {
            out.push(ParserCase { plan, ..case.clone() });
        }
        // base -> simpler
        if case.base != 0 {
            out.push(ParserCase { base: 0, ..case.clone() });
            if case.base > 7 {
                out.push(ParserCase { base: 7, ..case.clone() });
            }
        }
        // shorter text: drop one char at a time
        let idx: Vec<(usize, char)> = case.text.char_indices().collect();
        for (i, c) in idx.iter() {
            let mut t = String::with_capacity(case.text.len());
            t.push_str(&case.text[..*i]);
            t.push_str(&case.text[*i + c.len_utf8()..]);
            out.push(ParserCase { text: t, ..case.clone() });
        }
        // simpler chars in the text
        for (i, c) in idx.iter() {
            if !c.is_ascii() {
                let mut t = String::with_capacity(case.text.len());
                t.push_str(&case.text[..*i]);
                t.push('x');
                t.push_str(&case.text[*i + c.len_utf8()..]);
                out.push(ParserCase { text: t, ..case.clone() });
            }
        }
        // simpler ops
        for (i, op) in case.plan.iter().enumerate() {
            let mut alts: Vec<POp> = Vec::new();
            let mut o2 = op.clone();
            if let Some(p) = o2.pat_mut() {
                let s = p.as_string();
                if let Pat::C(c) = p {
                    if *c != 'a' {
                        let mut o3 = op.clone();
                        *o3.pat_mut().unwrap() = Pat::C('a');
                        alts.push(o3);
                    }
                } else if s.chars().count() > 1 {
                    let cs: Vec<char> = s.chars().collect();
                    let mut o3 = op.clone();
                    *o3.pat_mut().unwrap() = Pat::S(cs[1..].iter().collect());
                    alts.push(o3);
                    let mut o4 = op.clone();
                    *o4.pat_mut().unwrap() = Pat::S(cs[..cs.len() - 1].iter().collect());
                    alts.push(o4);
                }
            }
            match op {
                POp::Skip { h, n } if *n > 0 => alts.push(POp::Skip { h: *h, n: n / 2 }),
                POp::SkipBack { h, n } if *n > 0 => alts.push(POp::SkipBack { h: *h, n: n / 2 }),
                POp::ParseInt { h, ty, via_macro } if *ty != IntTy::U8 => {
                    alts.push(POp::ParseInt { h: *h, ty: IntTy::U8, via_macro: *via_macro })
                }
                _ => {}
            }
            for a in alts {
                let mut plan = case.plan.clone();
                plan[i] = a;
                out.push(ParserCase { plan, ..case.clone() });
            }
        }
        out
    }

    fn plan_len(case: &ParserCase) -> usize {
        case.plan.len()
    }

    fn sweep_len() -> u64 {
        parser_sweep_build(&|_| false, false).1
    }
    fn sweep_case(i: u64) -> Option<ParserCase> {
        Self::sweep_some(&[i]).into_iter().next().map(|(_, c)| c)
    }
    fn sweep_some(indices: &[u64]) -> Vec<(u64, ParserCase)> {
        let mut idx: Vec<u64> = indices.to_vec();
        idx.sort_unstable();
        idx.dedup();
        let set: std::collections::BTreeSet<u64> = idx.iter().copied().collect();
        let (v, n) = parser_sweep_build(&|i| set.contains(&i), false);
        idx.into_iter().filter(|i| *i < n).zip(v.into_iter().map(|(_, c)| c)).collect()
    }
    fn sweep_names() -> Vec<String> {
        parser_sweep_build(&|_| false, true).0.into_iter().map(|(n, _)| n).collect()
    }

    fn required_probes(prop: &str) -> &'static [&'static str] {
        match prop {
            "C13" => &[
                "parser-trim-both-ends-nonzero",
                "parser-err-from-end-with-base",
                "parser-err-from-start-with-base",
                "parser-base-near-u32-max",
                "parser-skip-inside-multibyte",
                "parser-pm-moved",
            ],
            "C14" => &[
                "parser-split-flag-then-other-op",
                "parser-split-exhausted",
                "parser-delimiter-not-found",
                "parser-parse-int-overflow",
                "parser-parse-int-negative",
                "parser-proto-multi-piece",
                "parser-empty-delim",
            ],
            _ => &[],
        }
    }
}

// ------------------------------------------------------------------------------------------
// Executor

#[derive(Clone, Copy)]
struct H<'a> {
    p: Parser<'a>,
    /// modelled one-shot flag (private in konst; observed through behaviour)
    flag: bool,
}

#[derive(Debug, Clone, Copy, PartialEq)]
enum Val {
    I(i128),
    U(u128),
    B(bool),
}

enum Out<'a> {
    Moved(Parser<'a>),
    Piece(&'a str, Parser<'a>),
    Value(Val, Parser<'a>),
    Err(ParseError<'a>),
}

/// expected outcome per C14
enum Exp<'a> {
    Ok {
        rem: &'a str,
        piece: Option<&'a str>,
        val: Option<Val>,
        flag: bool,
    },
    Err {
        kind: ErrorKind,
    },
    /// no C14 expectation for this operation
    NoneStated,
}

#[derive(Clone, Copy, PartialEq)]
enum Dir {
    Start,
    End,
    Both,
}
impl Dir {
    fn konst(self) -> ParseDirection {
        match self {
            Dir::Start => ParseDirection::FromStart,
            Dir::End => ParseDirection::FromEnd,
            Dir::Both => ParseDirection::FromBoth,
        }
    }
}

pub fn int_prefix(r: &str, signed: bool) -> Option<&str> {
    let b = r.as_bytes();
    let mut i = 0;
    if signed && b.first() == Some(&b'-') {
        i = 1;
    }
    let mut j = i;
    while j < b.len() && b[j].is_ascii_digit() {
        j += 1;
    }
    if j == i {
        None
    } else {
        Some(&r[..j])
    }
}

fn kind_from(k: u8) -> ErrorKind {
    match k % 7 {
        0 => ErrorKind::ParseInteger,
        1 => ErrorKind::ParseBool,
        2 => ErrorKind::Find,
        3 => ErrorKind::Strip,
        4 => ErrorKind::SplitExhausted,
        5 => ErrorKind::DelimiterNotFound,
        _ => ErrorKind::Other,
    }
}

fn same_str(a: &str, b: &str) -> bool {
    // content-equal and, for non-empty strings, the very same bytes of the text
    a.len() == b.len() && (a.is_empty() || a.as_ptr() == b.as_ptr())
}

macro_rules! parse_int_dispatch {
    ($ty:expr, $p:expr, $r:expr, $via:expr) => {{
        macro_rules! one {
            ($meth:ident, $free:ident, $wrap:ident, $wide:ty, $nat:ty) => {{
                let res = if $via { konst::parse_with!($p, $nat) } else { $p.$meth() };
                let out = match res {
                    Ok((v, np)) => Out::Value(Val::$wrap(v as $wide), np),
                    Err(e) => Out::Err(e),
                };
                let exp = match int_prefix($r, IntTy::signed($ty)) {
                    None => Exp::Err { kind: ErrorKind::ParseInteger },
                    // konst's whole-string `primitive::parse_*` is itself implemented through the
                    // Parser method, so it cannot serve as an independent reference: on the
                    // language `-?[0-9]+` std's `str::parse` is the reference (they must also agree).
                    Some(pre) => match (konst::primitive::$free(pre), pre.parse::<$nat>()) {
                        (Ok(kv), Ok(sv)) if kv != sv => Exp::Err { kind: ErrorKind::Other },
                        (_, Ok(v)) => Exp::Ok {
                            rem: &$r[pre.len()..],
                            piece: None,
                            val: Some(Val::$wrap(v as $wide)),
                            flag: false,
                        },
                        (_, Err(_)) => Exp::Err { kind: ErrorKind::ParseInteger },
                    },
                };
                (out, exp)
            }};
        }
        match $ty {
            IntTy::U8 => one!(parse_u8, parse_u8, U, u128, u8),
            IntTy::U16 => one!(parse_u16, parse_u16, U, u128, u16),
            IntTy::U32 => one!(parse_u32, parse_u32, U, u128, u32),
            IntTy::U64 => one!(parse_u64, parse_u64, U, u128, u64),
            IntTy::U128 => one!(parse_u128, parse_u128, U, u128, u128),
            IntTy::Usize => one!(parse_usize, parse_usize, U, u128, usize),
            IntTy::I8 => one!(parse_i8, parse_i8, I, i128, i8),
            IntTy::I16 => one!(parse_i16, parse_i16, I, i128, i16),
            IntTy::I32 => one!(parse_i32, parse_i32, I, i128, i32),
            IntTy::I64 => one!(parse_i64, parse_i64, I, i128, i64),
            IntTy::I128 => one!(parse_i128, parse_i128, I, i128, i128),
            IntTy::Isize => one!(parse_isize, parse_isize, I, i128, isize),
        }
    }};
}

pub const PM_FORMS: usize = 8;

/// Fixed catalogue of `parser_method!` invocations. Returns the branch taken.
fn run_pm<'a>(form: u8, mut p: Parser<'a>) -> (u32, Parser<'a>) {
    use konst::parser_method;
    let b = match form % PM_FORMS as u8 {
        0 => parser_method! {p, strip_prefix;
            "ab" => 0,
            "a" | "é" => 1,
            _ => 9,
        },
        1 => parser_method! {p, strip_suffix;
            "ab" | "€" => 0,
            "," => 1,
            "b" => 2,
            _ => 9,
        },
        2 => parser_method! {p, find_skip;
            "aab" => 0,
            "," | "€" => 1,
            _ => 9,
        },
        3 => parser_method! {p, rfind_skip;
            "a" => 0,
            "é" | ",," => 1,
            _ => 9,
        },
        4 => {
            parser_method! {p, trim_start_matches; "a" | "é" }
            5
        }
        5 => {
            parser_method! {p, trim_end_matches; "ab" | "" | "," }
            5
        }
        6 => parser_method! {p, find_skip;
            "😀" | " " | "-" => 0,
            "12" => 1,
            "true" => 2,
            _ => 9,
        },
        _ => {
            parser_method! {p, trim_end_matches; " " | "\t" | "\n" | "😀" }
            5
        }
    };
    (b, p)
}

fn pm_dir(form: u8) -> Dir {
    match form % PM_FORMS as u8 {
        0 | 2 | 4 | 6 => Dir::Start,
        _ => Dir::End,
    }
}

struct Exec<'a, 'c> {
    text: &'a str,
    base: usize,
    ctx: &'c mut Ctx,
    step: usize,
}

impl<'a, 'c> Exec<'a, 'c> {
    fn v(&self, class: &str, detail: String) -> Violation {
        viol(class, self.step, detail)
    }

    /// C13 invariants 1-2 and C01 containment on a parser value
    fn check_positions(&mut self, p: Parser<'a>, what: &dyn std::fmt::Display) -> Res {
        let text = self.text;
        let base = self.base;
        let (so, eo, rem) = match guard(|| (p.start_offset(), p.end_offset(), p.remainder())) {
            Ok(x) => x,
            Err(m) => return Err(self.v("unexpected-panic", format!("{what}: observer panicked: {m}"))),
        };
        if self.ctx.wants("C01") {
            match str_offset_in(text, rem) {
                None => {
                    return Err(self.v(
                        "remainder-outside-text",
                        format!("{what}: remainder (len {}) does not lie inside the text", rem.len()),
                    ))
                }
                Some(o) => {
                    if !text.is_char_boundary(o) || !text.is_char_boundary(o + rem.len()) {
                        return Err(self.v(
                            "remainder-not-on-char-boundary",
                            format!("{what}: remainder is text[{}..{}]", o, o + rem.len()),
                        ));
                    }
                }
            }
            if std::str::from_utf8(rem.as_bytes()).is_err() {
                return Err(self.v("invalid-utf8", format!("{what}: remainder is not valid UTF-8")));
            }
        }
        if self.ctx.wants("C13") {
            let ok_range = so >= base && so <= eo && eo <= base + text.len();
            if !ok_range {
                return Err(self.v(
                    "offset-out-of-range",
                    format!(
                        "{what}: start_offset={so} end_offset={eo} base={base} text.len()={}",
                        text.len()
                    ),
                ));
            }
            let (lo, hi) = (so - base, eo - base);
            if !text.is_char_boundary(lo) || !text.is_char_boundary(hi) {
                return Err(self.v(
                    "offset-not-char-boundary",
                    format!("{what}: start_offset-base={lo} end_offset-base={hi}"),
                ));
            }
            let want = &text[lo..hi];
            // an empty remainder carries no bytes: only its length is compared (the property speaks
            // of the remainder as a value; where an empty string "sits" is not observable)
            let same_addr = want.len() == rem.len() && (rem.is_empty() || want.as_ptr() == rem.as_ptr());
            if !same_addr {
                let at = str_offset_in(text, rem);
                return Err(self.v(
                    "offset-remainder-mismatch",
                    format!(
                        "{what}: start_offset-base={lo} end_offset-base={hi} but remainder {:?} sits at {:?} (len {})",
                        rem, at, rem.len()
                    ),
                ));
            }
            if p.len() != rem.len() || p.is_empty() != rem.is_empty() {
                return Err(self.v("len-mismatch", format!("{what}: len()/is_empty() disagree with remainder()")));
            }
        }
        Ok(())
    }

    fn check_piece(&mut self, piece: &'a str, pre_rem: &'a str, what: &dyn std::fmt::Display) -> Res {
        if self.ctx.wants("C01") {
            if str_offset_in(self.text, piece).is_none() {
                return Err(self.v("piece-outside-text", format!("{what}: returned piece not inside the text")));
            }
            if std::str::from_utf8(piece.as_bytes()).is_err() {
                return Err(self.v("invalid-utf8", format!("{what}: returned piece is not valid UTF-8")));
            }
        }
        if self.ctx.wants_any(&["C01", "C14"]) && !piece.is_empty() && str_offset_in(pre_rem, piece).is_none() {
            return Err(self.v(
                "piece-outside-remainder",
                format!("{what}: returned piece {:?} is not inside the pre-operation remainder", piece),
            ));
        }
        Ok(())
    }
}

fn dir_id(d: ParseDirection) -> u64 {
    match d {
        ParseDirection::FromStart => 0,
        ParseDirection::FromEnd => 1,
        ParseDirection::FromBoth => 2,
    }
}

fn exec(case: &ParserCase, ctx: &mut Ctx) -> Res {
    let text: &str = case.text.as_str();
    let base = case.base as usize;
    let mut ex = Exec { text, base, ctx, step: 0 };

    let p0 = match guard(|| {
        if base == 0 {
            Parser::new(text)
        } else {
            Parser::with_start_offset(text, base)
        }
    }) {
        Ok(p) => p,
        Err(m) => return Err(ex.v("unexpected-panic", format!("constructor panicked: {m}"))),
    };
    ex.check_positions(p0, &"constructor")?;
    if base as u64 + text.len() as u64 + 8 >= u32::MAX as u64 {
        ex.ctx.cov.probe("parser-base-near-u32-max");
    }
    let mut hs: Vec<Option<H>> = Vec::new();
    hs.push(Some(H { p: p0, flag: false }));
    let mut last_dir: Vec<Option<Dir>> = vec![None];

    for (i, op) in case.plan.iter().enumerate() {
        ex.step = i;
        let h = op.handle();
        let Some(Some(cur)) = hs.get(h).copied() else {
            continue; // names a handle that does not exist (any sub-list of a plan is a plan)
        };
        let pre = cur.p;
        let r: &str = pre.remainder();
        let (pre_so, pre_eo) = (pre.start_offset(), pre.end_offset());
        // A broken konst can leave a remainder that is not valid UTF-8 (cut inside a character). The
        // C13 / C01 oracles report that at the step that produced it; when another property is being
        // decided the history simply ends here - the reference functions (and this harness's own
        // slicing) are not defined on such a string.
        if std::str::from_utf8(r.as_bytes()).is_err() || str_offset_in(text, r).map(|o| !text.is_char_boundary(o) || !text.is_char_boundary(o + r.len())).unwrap_or(!r.is_empty()) {
            return Ok(());
        }

        // ---- fork / drop ------------------------------------------------------------
        match op {
            POp::Fork { .. } => {
                if hs.len() < HANDLE_CAP {
                    hs.push(Some(cur));
                    last_dir.push(last_dir[h]);
                    ex.ctx.cov.flag(F_FORK);
                    ex.ctx.cov.step(mix(op.kind_id(), r.len() as u64), false);
                }
                continue;
            }
            POp::Drop { .. } => {
                if hs.iter().filter(|x| x.is_some()).count() > 1 {
                    hs[h] = None;
                    ex.ctx.cov.step(mix(op.kind_id(), r.len() as u64), false);
                }
                continue;
            }
            _ => {}
        }

        // ---- error constructors ------------------------------------------------------
        if matches!(op, POp::IntoError { .. } | POp::IntoOtherError { .. }) {
            let kind = if let POp::IntoError { kind, .. } = op { Some(kind_from(*kind)) } else { None };
            let e = match guard(|| match kind {
                Some(k) => pre.into_error(k),
                None => pre.into_other_error(&"ksim"),
            }) {
                Ok(e) => e,
                Err(m) => return Err(ex.v("unexpected-panic", format!("{op:?}: {m}"))),
            };
            let d = pre.parse_direction();
            if ex.ctx.wants("C13") {
                let want_off = match d {
                    ParseDirection::FromStart | ParseDirection::FromBoth => pre_so,
                    ParseDirection::FromEnd => pre_eo,
                };
                if e.offset() != want_off || e.error_direction() != d {
                    return Err(ex.v(
                        "error-offset-mismatch",
                        format!(
                            "{op:?}: error offset={} direction={:?}; parser start={} end={} direction={:?}",
                            e.offset(), e.error_direction(), pre_so, pre_eo, d
                        ),
                    ));
                }
                let want_kind = kind.unwrap_or(ErrorKind::Other);
                if e.kind() != want_kind {
                    return Err(ex.v("error-kind-mismatch", format!("{op:?}: kind={:?}", e.kind())));
                }
                if base > 0 && d == ParseDirection::FromEnd {
                    ex.ctx.cov.probe("parser-err-from-end-with-base");
                }
            }
            ex.ctx.cov.step(mix(mix(op.kind_id(), r.len() as u64), dir_id(d)), false);
            continue;
        }

        // ---- protocol sub-scenario -----------------------------------------------------
        if let POp::Proto { kind, p, .. } = op {
            proto(&mut ex, cur, *kind, p)?;
            continue;
        }

        // ---- parser_method! forms -------------------------------------------------------
        if let POp::Pm { form, .. } = op {
            let (branch, np) = match guard(|| run_pm(*form, pre)) {
                Ok(x) => x,
                Err(m) => return Err(ex.v("unexpected-panic", format!("{op:?}: {m}"))),
            };
            ex.check_positions(np, &Lazy(|| format!("{op:?}")))?;
            let moved = np.remainder().len() != r.len();
            if ex.ctx.wants("C13") {
                let d = pm_dir(*form);
                // the macro moves the parser only with skip()/skip_back(): the untouched end stays
                let (so, eo) = (np.start_offset(), np.end_offset());
                let bad = match d {
                    Dir::Start => eo != pre_eo || so < pre_so,
                    _ => so != pre_so || eo > pre_eo,
                };
                if bad {
                    return Err(ex.v(
                        "pm-moved-wrong-end",
                        format!("{op:?}: before {pre_so}..{pre_eo} after {so}..{eo}"),
                    ));
                }
                if branch == 9 && (so, eo) != (pre_so, pre_eo) {
                    return Err(ex.v("pm-default-branch-moved", format!("{op:?}: default branch ran but parser moved")));
                }
                if moved {
                    ex.ctx.cov.probe("parser-pm-moved");
                }
            }
            hs[h] = Some(H { p: np, flag: cur.flag });
            ex.ctx.cov.step(mix(mix(op.kind_id(), r.len() as u64), branch as u64), moved);
            continue;
        }

        // ---- ordinary operations -----------------------------------------------------------
        let dir: Dir;
        let splitfam: bool;
        let flag = cur.flag;
        let res: Result<(Out, Exp), String> = {
            use POp::*;
            match op {
                Trim { .. } => {
                    dir = Dir::Both;
                    splitfam = false;
                    guard(|| (Out::Moved(pre.trim()), Exp::Ok { rem: ks::trim(r), piece: None, val: None, flag }))
                }
                TrimStart { .. } => {
                    dir = Dir::Start;
                    splitfam = false;
                    guard(|| (Out::Moved(pre.trim_start()), Exp::Ok { rem: ks::trim_start(r), piece: None, val: None, flag }))
                }
                TrimEnd { .. } => {
                    dir = Dir::End;
                    splitfam = false;
                    guard(|| (Out::Moved(pre.trim_end()), Exp::Ok { rem: ks::trim_end(r), piece: None, val: None, flag }))
                }
                TrimMatches { p, .. } => {
                    dir = Dir::Both;
                    splitfam = false;
                    guard(|| with_pat!(p, |q| (Out::Moved(pre.trim_matches(q)), Exp::Ok { rem: ks::trim_matches(r, q), piece: None, val: None, flag })))
                }
                TrimStartMatches { p, .. } => {
                    dir = Dir::Start;
                    splitfam = false;
                    guard(|| with_pat!(p, |q| (Out::Moved(pre.trim_start_matches(q)), Exp::Ok { rem: ks::trim_start_matches(r, q), piece: None, val: None, flag })))
                }
                TrimEndMatches { p, .. } => {
                    dir = Dir::End;
                    splitfam = false;
                    guard(|| with_pat!(p, |q| (Out::Moved(pre.trim_end_matches(q)), Exp::Ok { rem: ks::trim_end_matches(r, q), piece: None, val: None, flag })))
                }
                StripPrefix { p, .. } => {
                    dir = Dir::Start;
                    splitfam = false;
                    guard(|| with_pat!(p, |q| {
                        let out = match pre.strip_prefix(q) { Ok(np) => Out::Moved(np), Err(e) => Out::Err(e) };
                        let exp = match ks::strip_prefix(r, q) {
                            Some(x) => Exp::Ok { rem: x, piece: None, val: None, flag },
                            None => Exp::Err { kind: ErrorKind::Strip },
                        };
                        (out, exp)
                    }))
                }
                StripSuffix { p, .. } => {
                    dir = Dir::End;
                    splitfam = false;
                    guard(|| with_pat!(p, |q| {
                        let out = match pre.strip_suffix(q) { Ok(np) => Out::Moved(np), Err(e) => Out::Err(e) };
                        let exp = match ks::strip_suffix(r, q) {
                            Some(x) => Exp::Ok { rem: x, piece: None, val: None, flag },
                            None => Exp::Err { kind: ErrorKind::Strip },
                        };
                        (out, exp)
                    }))
                }
                FindSkip { p, .. } => {
                    dir = Dir::Start;
                    splitfam = false;
                    guard(|| with_pat!(p, |q| {
                        let out = match pre.find_skip(q) { Ok(np) => Out::Moved(np), Err(e) => Out::Err(e) };
                        let exp = match ks::find_skip(r, q) {
                            Some(x) => Exp::Ok { rem: x, piece: None, val: None, flag },
                            None => Exp::Err { kind: ErrorKind::Find },
                        };
                        (out, exp)
                    }))
                }
                RfindSkip { p, .. } => {
                    dir = Dir::End;
                    splitfam = false;
                    guard(|| with_pat!(p, |q| {
                        let out = match pre.rfind_skip(q) { Ok(np) => Out::Moved(np), Err(e) => Out::Err(e) };
                        let exp = match ks::rfind_skip(r, q) {
                            Some(x) => Exp::Ok { rem: x, piece: None, val: None, flag },
                            None => Exp::Err { kind: ErrorKind::Find },
                        };
                        (out, exp)
                    }))
                }
                Split { p, .. } => {
                    dir = Dir::Start;
                    splitfam = true;
                    guard(|| with_pat!(p, |q| {
                        let out = match pre.split(q) { Ok((s, np)) => Out::Piece(s, np), Err(e) => Out::Err(e) };
                        let exp = if flag {
                            Exp::Err { kind: ErrorKind::SplitExhausted }
                        } else {
                            match ks::split_once(r, q) {
                                Some((b, a)) => Exp::Ok { rem: a, piece: Some(b), val: None, flag: false },
                                None => Exp::Ok { rem: &r[r.len()..], piece: Some(r), val: None, flag: true },
                            }
                        };
                        (out, exp)
                    }))
                }
                Rsplit { p, .. } => {
                    dir = Dir::End;
                    splitfam = true;
                    guard(|| with_pat!(p, |q| {
                        let out = match pre.rsplit(q) { Ok((s, np)) => Out::Piece(s, np), Err(e) => Out::Err(e) };
                        let exp = if flag {
                            Exp::Err { kind: ErrorKind::SplitExhausted }
                        } else {
                            match ks::rsplit_once(r, q) {
                                Some((b, a)) => Exp::Ok { rem: b, piece: Some(a), val: None, flag: false },
                                None => Exp::Ok { rem: &r[..0], piece: Some(r), val: None, flag: true },
                            }
                        };
                        (out, exp)
                    }))
                }
                SplitTerminator { p, .. } => {
                    dir = Dir::Start;
                    splitfam = true;
                    guard(|| with_pat!(p, |q| {
                        let out = match pre.split_terminator(q) { Ok((s, np)) => Out::Piece(s, np), Err(e) => Out::Err(e) };
                        let exp = if flag {
                            Exp::Err { kind: ErrorKind::SplitExhausted }
                        } else if r.is_empty() {
                            Exp::Err { kind: ErrorKind::DelimiterNotFound }
                        } else {
                            match ks::split_once(r, q) {
                                Some((b, a)) => Exp::Ok { rem: a, piece: Some(b), val: None, flag: a.is_empty() },
                                None => Exp::Err { kind: ErrorKind::DelimiterNotFound },
                            }
                        };
                        (out, exp)
                    }))
                }
                RsplitTerminator { p, .. } => {
                    dir = Dir::End;
                    splitfam = true;
                    guard(|| with_pat!(p, |q| {
                        let out = match pre.rsplit_terminator(q) { Ok((s, np)) => Out::Piece(s, np), Err(e) => Out::Err(e) };
                        let exp = if flag {
                            Exp::Err { kind: ErrorKind::SplitExhausted }
                        } else if r.is_empty() {
                            Exp::Err { kind: ErrorKind::DelimiterNotFound }
                        } else {
                            match ks::rsplit_once(r, q) {
                                Some((b, a)) => Exp::Ok { rem: b, piece: Some(a), val: None, flag: b.is_empty() },
                                None => Exp::Err { kind: ErrorKind::DelimiterNotFound },
                            }
                        };
                        (out, exp)
                    }))
                }
                SplitKeep { p, .. } => {
                    dir = Dir::Start;
                    splitfam = true;
                    guard(|| with_pat!(p, |q| {
                        let out = match pre.split_keep(q) { Ok((s, np)) => Out::Piece(s, np), Err(e) => Out::Err(e) };
                        let exp = if flag {
                            Exp::Err { kind: ErrorKind::SplitExhausted }
                        } else {
                            match ks::find(r, q) {
                                Some(pos) => {
                                    let (b, a) = ks::split_at(r, pos);
                                    Exp::Ok { rem: a, piece: Some(b), val: None, flag: false }
                                }
                                None => Exp::Ok { rem: &r[r.len()..], piece: Some(r), val: None, flag: true },
                            }
                        };
                        (out, exp)
                    }))
                }
                Skip { n, .. } => {
                    dir = Dir::Start;
                    splitfam = false;
                    let mut k = (*n).min(r.len());
                    while !r.is_char_boundary(k) {
                        k += 1;
                    }
                    if k != (*n).min(r.len()) {
                        ex.ctx.cov.probe("parser-skip-inside-multibyte");
                    }
                    guard(|| (Out::Moved(pre.skip(*n)), Exp::Ok { rem: &r[k..], piece: None, val: None, flag }))
                }
                SkipBack { n, .. } => {
                    dir = Dir::End;
                    splitfam = false;
                    let mut k = r.len().saturating_sub(*n);
                    while !r.is_char_boundary(k) {
                        k -= 1;
                    }
                    if k != r.len().saturating_sub(*n) {
                        ex.ctx.cov.probe("parser-skip-inside-multibyte");
                    }
                    guard(|| (Out::Moved(pre.skip_back(*n)), Exp::Ok { rem: &r[..k], piece: None, val: None, flag }))
                }
                ParseInt { ty, via_macro, .. } => {
                    dir = Dir::Start;
                    splitfam = false;
                    let ty = *ty;
                    let via = *via_macro;
                    guard(|| {
                        let (out, exp) = parse_int_dispatch!(ty, pre, r, via);
                        let exp = match exp {
                            Exp::Ok { rem, piece, val, .. } => Exp::Ok { rem, piece, val, flag },
                            e => e,
                        };
                        (out, exp)
                    })
                }
                ParseBool { via_macro, .. } => {
                    dir = Dir::Start;
                    splitfam = false;
                    let via = *via_macro;
                    guard(|| {
                        let res = if via { konst::parse_with!(pre, bool) } else { pre.parse_bool() };
                        let out = match res { Ok((v, np)) => Out::Value(Val::B(v), np), Err(e) => Out::Err(e) };
                        let exp = if ks::starts_with(r, "true") {
                            match r[..4].parse::<bool>() {
                                Ok(v) => Exp::Ok { rem: &r[4..], piece: None, val: Some(Val::B(v)), flag },
                                Err(_) => Exp::Err { kind: ErrorKind::ParseBool },
                            }
                        } else if ks::starts_with(r, "false") {
                            match r[..5].parse::<bool>() {
                                Ok(v) => Exp::Ok { rem: &r[5..], piece: None, val: Some(Val::B(v)), flag },
                                Err(_) => Exp::Err { kind: ErrorKind::ParseBool },
                            }
                        } else {
                            Exp::Err { kind: ErrorKind::ParseBool }
                        };
                        (out, exp)
                    })
                }
                Fork { .. } | Drop { .. } | IntoError { .. } | IntoOtherError { .. } | Pm { .. } | Proto { .. } => unreachable!(),
            }
        };
        let (out, exp) = match res {
            Ok(x) => x,
            Err(m) => return Err(ex.v("unexpected-panic", format!("{op:?} on remainder {r:?}: {m}"))),
        };

        if flag && !splitfam {
            ex.ctx.cov.probe("parser-split-flag-then-other-op");
        }
        if let Some(p) = op.clone().pat_mut() {
            if p.as_string().is_empty() {
                ex.ctx.cov.probe("parser-empty-delim");
            }
        }

        let what = Lazy(|| format!("{op:?} on remainder {r:?}"));
        let what: &dyn std::fmt::Display = &what;
        let mut new_flag = flag;
        let (np, piece, val, err): (Option<Parser>, Option<&str>, Option<Val>, Option<ParseError>) = match out {
            Out::Moved(np) => (Some(np), None, None, None),
            Out::Piece(s, np) => (Some(np), Some(s), None, None),
            Out::Value(v, np) => (Some(np), None, Some(v), None),
            Out::Err(e) => (None, None, None, Some(e)),
        };

        // -- C13 / C01 on the result
        if let Some(np) = np {
            ex.check_positions(np, what)?;
            if let Some(s) = piece {
                ex.check_piece(s, r, what)?;
            }
            if ex.ctx.wants("C13") {
                // (parse_direction() after a SUCCESSFUL operation is documented but not part of C13's
                // statement, which speaks of the direction of errors only: not compared)
                // an operation working from one end must not move the other one
                let (so, eo) = (np.start_offset(), np.end_offset());
                let bad = match dir {
                    Dir::Start => eo != pre_eo || so < pre_so,
                    Dir::End => so != pre_so || eo > pre_eo,
                    Dir::Both => so < pre_so || eo > pre_eo,
                };
                if bad {
                    return Err(ex.v("moved-wrong-end", format!("{what}: before {pre_so}..{pre_eo} after {so}..{eo}")));
                }
                if dir == Dir::Both && so > pre_so && eo < pre_eo {
                    ex.ctx.cov.probe("parser-trim-both-ends-nonzero");
                }
            }
        }
        if let Some(e) = &err {
            ex.ctx.cov.flag(F_FAILOP);
            if ex.ctx.wants("C13") {
                let want_off = match dir {
                    Dir::Start | Dir::Both => pre_so,
                    Dir::End => pre_eo,
                };
                if e.offset() != want_off {
                    return Err(ex.v(
                        "error-offset-mismatch",
                        format!("{what}: error offset={} but the parser it was called on has start={pre_so} end={pre_eo} (works {:?})", e.offset(), dir.konst()),
                    ));
                }
                if e.error_direction() != dir.konst() {
                    return Err(ex.v(
                        "error-direction-mismatch",
                        format!("{what}: error direction={:?}, operation works {:?}", e.error_direction(), dir.konst()),
                    ));
                }
                if base > 0 {
                    ex.ctx.cov.probe(if dir == Dir::End { "parser-err-from-end-with-base" } else { "parser-err-from-start-with-base" });
                }
                // copy() of the error is the same error
                let c = e.copy();
                if c != *e || c.offset() != e.offset() {
                    return Err(ex.v("error-copy-mismatch", format!("{what}: ParseError::copy differs")));
                }
            }
        }

        // -- C14
        if ex.ctx.wants("C14") {
            match (&exp, np, &err) {
                (Exp::Ok { rem, piece: epiece, val: eval, flag: eflag }, Some(np), _) => {
                    let got = np.remainder();
                    if !(same_str(got, rem) && got == *rem) {
                        return Err(ex.v(
                            "remainder-differs-from-free-fn",
                            format!("{what}: parser remainder {:?} (at {:?}) but the free function gives {:?} (at {:?})",
                                got, str_offset_in(text, got), rem, str_offset_in(text, rem)),
                        ));
                    }
                    if let Some(ep) = epiece {
                        let gp = piece.unwrap_or("<none>");
                        if !(same_str(gp, ep) && gp == *ep) {
                            return Err(ex.v("piece-differs-from-free-fn", format!("{what}: returned piece {:?}, expected {:?}", gp, ep)));
                        }
                    }
                    if let Some(ev) = eval {
                        if val != Some(*ev) {
                            return Err(ex.v("value-differs", format!("{what}: parsed {:?}, the whole-string function gives {:?}", val, ev)));
                        }
                    }
                    new_flag = *eflag;
                }
                (Exp::Err { kind }, None, Some(e)) => {
                    // the property names one kind only: split / rsplit (and split_keep, documented to
                    // behave like split) fail with SplitExhausted once the last piece was yielded. The
                    // other kinds are documented on ErrorKind but not part of C14: not compared.
                    let stated = *kind == ErrorKind::SplitExhausted && matches!(op, POp::Split { .. } | POp::Rsplit { .. } | POp::SplitKeep { .. });
                    if stated && e.kind() != *kind {
                        return Err(ex.v("error-kind-mismatch", format!("{what}: error kind {:?}, expected {:?}", e.kind(), kind)));
                    }
                    match kind {
                        ErrorKind::SplitExhausted => ex.ctx.cov.probe("parser-split-exhausted"),
                        ErrorKind::DelimiterNotFound => ex.ctx.cov.probe("parser-delimiter-not-found"),
                        ErrorKind::ParseInteger => {
                            if int_prefix(r, true).is_some() {
                                ex.ctx.cov.probe("parser-parse-int-overflow")
                            }
                        }
                        _ => {}
                    }
                }
                (Exp::Ok { .. }, None, _) => {
                    return Err(ex.v("failed-but-free-fn-succeeds", format!("{what}: returned Err({:?}) but the free function finds something", err.as_ref().map(|e| e.kind()))));
                }
                (Exp::Err { kind }, Some(np), _) => {
                    return Err(ex.v("succeeded-but-free-fn-fails", format!("{what}: returned Ok with remainder {:?} but expected Err({:?})", np.remainder(), kind)));
                }
                _ => {}
            }
            if let (Some(Val::I(v)), true) = (val, true) {
                if v < 0 {
                    ex.ctx.cov.probe("parser-parse-int-negative");
                }
            }
        } else if let (Exp::Ok { flag: eflag, .. }, Some(_)) = (&exp, np) {
            new_flag = *eflag;
        }

        // -- fingerprints, state update
        let ok = np.is_some();
        let changed = np.map(|n| n.remainder().len() != r.len()).unwrap_or(false) || new_flag != flag;
        let d = match dir { Dir::Start => 0u64, Dir::End => 1, Dir::Both => 2 };
        if let Some(ld) = last_dir[h] {
            if ld != dir && changed {
                ex.ctx.cov.flag(F_DIRCHANGE);
            }
        }
        if changed {
            last_dir[h] = Some(dir);
        }
        let fp = mix(
            mix(mix(op.kind_id(), r.len() as u64), (flag as u64) | ((ok as u64) << 1) | (d << 2) | (((pre_so > base) as u64) << 4)),
            np.map(|n| n.remainder().len() as u64).unwrap_or(99),
        );
        ex.ctx.cov.step(fp, changed);
        ex.ctx.log(|| {
            format!(
                "{i}:{op:?}:{}:{}..{}:{}",
                ok,
                np.map(|n| n.start_offset() as i64 - base as i64).unwrap_or(-1),
                np.map(|n| n.end_offset() as i64 - base as i64).unwrap_or(-1),
                new_flag
            )
        });
        if let Some(np) = np {
            hs[h] = Some(H { p: np, flag: new_flag });
        }
        // on Err the handle continues from the retained copy (nothing was consumed)
    }
    Ok(())
}

/// Protocol sub-scenario (C14, against std as stated): on a fork, repeat one split-family
/// method with a non-empty delimiter until it fails.
fn proto<'a>(ex: &mut Exec<'a, '_>, cur: H<'a>, kind: u8, p: &Pat) -> Res {
    let d = p.as_string();
    if d.is_empty() {
        return Ok(()); // excluded: the empty delimiter legitimately yields "" forever
    }
    let r: &str = cur.p.remainder();
    let kind = kind % 4;
    let cap = r.len() + 4;
    let mut got: Vec<&str> = Vec::new();
    let mut p_cur = cur.p;
    let mut final_err: Option<ErrorKind> = None;
    let res = guard(|| {
        for _ in 0..cap {
            let step = with_pat!(p, |q| match kind {
                0 => p_cur.split(q),
                1 => p_cur.rsplit(q),
                2 => p_cur.split_terminator(q),
                _ => p_cur.rsplit_terminator(q),
            });
            match step {
                Ok((s, np)) => {
                    got.push(s);
                    p_cur = np;
                }
                Err(e) => {
                    final_err = Some(e.kind());
                    break;
                }
            }
        }
    });
    let what = Lazy(|| format!("protocol kind={kind} delimiter {d:?} on remainder {r:?}"));
    let what: &dyn std::fmt::Display = &what;
    if let Err(m) = res {
        return Err(ex.v("unexpected-panic", format!("{what}: {m}")));
    }
    // every intermediate parser must satisfy the position invariants too
    ex.check_positions(p_cur, what)?;
    for s in &got {
        ex.check_piece(s, r, what)?;
    }
    ex.ctx.cov.step(mix(mix(25, kind as u64), got.len() as u64), !got.is_empty());
    if !ex.ctx.wants("C14") {
        return Ok(());
    }
    if final_err.is_none() {
        return Err(ex.v("protocol-no-progress", format!("{what}: no failure after {cap} calls (bounded progress)")));
    }
    if cur.flag {
        // the one-shot flag was already set: the first call must fail with SplitExhausted
        if !got.is_empty() || (kind < 2 && final_err != Some(ErrorKind::SplitExhausted)) {
            return Err(ex.v("protocol-flag-ignored", format!("{what}: flag set but got {:?} then {:?}", got, final_err)));
        }
        return Ok(());
    }
    let want: Vec<&str> = match kind {
        0 => r.split(d.as_str()).collect(),
        1 => r.rsplit(d.as_str()).collect(),
        2 => {
            let mut v: Vec<&str> = r.split(d.as_str()).collect();
            v.pop();
            v
        }
        _ => {
            let mut v: Vec<&str> = r.rsplit(d.as_str()).collect();
            v.pop();
            v
        }
    };
    if got != want || got.iter().zip(&want).any(|(a, b)| !same_str(a, b)) {
        return Err(ex.v("protocol-pieces-differ", format!("{what}: konst yields {:?}, std yields {:?}", got, want)));
    }
    if kind < 2 && final_err != Some(ErrorKind::SplitExhausted) {
        return Err(ex.v("protocol-final-error", format!("{what}: ended with {:?} instead of SplitExhausted", final_err)));
    }
    if want.len() >= 2 {
        ex.ctx.cov.probe("parser-proto-multi-piece");
    }
    ex.ctx.cov.flag(F_FAILOP);
    Ok(())
}

/// Exhaustion-style sweep for the Parser: every operation kind with a handful of patterns, alone
/// and after one positioning step, on a handful of small texts (completely enumerated; the Miri
/// tier runs a seed-chosen fraction of it in quick and all of it in thorough).
pub fn parser_sweep() -> Vec<(String, ParserCase)> {
    parser_sweep_build(&|_| true, true).0
}

/// `want(i)`: materialise cell i; `names`: format all names (both are costly under Miri)
pub fn parser_sweep_build(want: &dyn Fn(u64) -> bool, names: bool) -> (Vec<(String, ParserCase)>, u64) {
    let texts = ["", "a", "ab,", " a \t", "é€", "😀a", "12", "-5x", "true", ",,", "a,b,", "aaab"];
    let pats: Vec<Pat> = vec![
        Pat::S(String::new()),
        Pat::S("a".into()),
        Pat::S(",".into()),
        Pat::S("aab".into()),
        Pat::S("é".into()),
        Pat::S("abcdefghij".into()),
        Pat::C('a'),
        Pat::C(','),
        Pat::C('😀'),
    ];
    let h = 0;
    let mut ops: Vec<POp> = vec![POp::Trim { h }, POp::TrimStart { h }, POp::TrimEnd { h }, POp::ParseBool { h, via_macro: false }, POp::ParseBool { h, via_macro: true }, POp::IntoOtherError { h }];
    for p in &pats {
        let p = p.clone();
        ops.extend([
            POp::TrimMatches { h, p: p.clone() },
            POp::TrimStartMatches { h, p: p.clone() },
            POp::TrimEndMatches { h, p: p.clone() },
            POp::StripPrefix { h, p: p.clone() },
            POp::StripSuffix { h, p: p.clone() },
            POp::FindSkip { h, p: p.clone() },
            POp::RfindSkip { h, p: p.clone() },
            POp::Split { h, p: p.clone() },
            POp::Rsplit { h, p: p.clone() },
            POp::SplitTerminator { h, p: p.clone() },
            POp::RsplitTerminator { h, p: p.clone() },
            POp::SplitKeep { h, p: p.clone() },
        ]);
        if p.as_string().len() == 1 {
            for kind in 0..4 {
                ops.push(POp::Proto { h, kind, p: p.clone() });
            }
        }
    }
    for n in [0usize, 1, 2, 3, 100] {
        ops.push(POp::Skip { h, n });
        ops.push(POp::SkipBack { h, n });
    }
    for ty in [IntTy::U8, IntTy::I8, IntTy::U128, IntTy::I128, IntTy::Usize] {
        ops.push(POp::ParseInt { h, ty, via_macro: false });
        ops.push(POp::ParseInt { h, ty, via_macro: true });
    }
    for form in 0..PM_FORMS as u8 {
        ops.push(POp::Pm { h, form });
    }
    let prefixes: Vec<Option<POp>> = vec![None, Some(POp::Skip { h, n: 1 }), Some(POp::SkipBack { h, n: 1 }), Some(POp::Split { h, p: Pat::S(",".into()) })];
    let mut out = Vec::new();
    let mut idx: u64 = 0;
    for (ti, t) in texts.iter().enumerate() {
        for (pi, pre) in prefixes.iter().enumerate() {
            for (oi, op) in ops.iter().enumerate() {
                // the positioned variants only for every third operation (keeps the sweep small)
                if pi > 0 && (oi + ti) % 3 != 0 {
                    continue;
                }
                let wanted = want(idx);
                idx += 1;
                if !wanted && !names {
                    continue;
                }
                let name = if names { format!("parser/text={:?}/prefix={}/{:?}", t, pi, op) } else { String::new() };
                let mut plan = Vec::new();
                if wanted {
                    if let Some(p) = pre {
                        plan.push(p.clone());
                    }
                    plan.push(op.clone());
                    plan.push(POp::IntoError { h, kind: 2 });
                }
                let base = if (ti + oi) % 2 == 0 { 0 } else { 7 };
                out.push((name, ParserCase { text: t.to_string(), base, plan }));
            }
        }
    }
    (out, idx)
}
