//! World F, real side helpers: size-erased containers, the macro scenarios (`map_!`, `from_fn_!`,
//! `map!`, `from_fn!` with every early-exit kind compiled in), the `destructure!` shape
//! catalogue, and the Copy / zero-sized self-contained scenarios.

use super::byvalue_model::Exit;
use crate::ledger::*;
use konst::array::{ArrayBuilder, ArrayConsumer};
use std::marker::PhantomData;
use std::mem::ManuallyDrop;

pub enum AnyArr {
    V0([Tok; 0]),
    V1([Tok; 1]),
    V2([Tok; 2]),
    V3([Tok; 3]),
    V5([Tok; 5]),
    V8([Tok; 8]),
    V33([Tok; 33]),
}
pub enum AnyCons {
    V0(ArrayConsumer<Tok, 0>),
    V1(ArrayConsumer<Tok, 1>),
    V2(ArrayConsumer<Tok, 2>),
    V3(ArrayConsumer<Tok, 3>),
    V5(ArrayConsumer<Tok, 5>),
    V8(ArrayConsumer<Tok, 8>),
    V33(ArrayConsumer<Tok, 33>),
}
pub enum AnyBuild {
    V0(ArrayBuilder<Tok, 0>),
    V1(ArrayBuilder<Tok, 1>),
    V2(ArrayBuilder<Tok, 2>),
    V3(ArrayBuilder<Tok, 3>),
    V5(ArrayBuilder<Tok, 5>),
    V8(ArrayBuilder<Tok, 8>),
    V33(ArrayBuilder<Tok, 33>),
}

#[macro_export]
macro_rules! on_any {
    ($E:ident, $v:expr, |$x:ident| $body:expr) => {
        match $v {
            $E::V0($x) => $body,
            $E::V1($x) => $body,
            $E::V2($x) => $body,
            $E::V3($x) => $body,
            $E::V5($x) => $body,
            $E::V8($x) => $body,
            $E::V33($x) => $body,
        }
    };
}
#[macro_export]
macro_rules! conv_any {
    ($E1:ident, $E2:ident, $v:expr, |$x:ident| $body:expr) => {
        match $v {
            $E1::V0($x) => $E2::V0($body),
            $E1::V1($x) => $E2::V1($body),
            $E1::V2($x) => $E2::V2($body),
            $E1::V3($x) => $E2::V3($body),
            $E1::V5($x) => $E2::V5($body),
            $E1::V8($x) => $E2::V8($body),
            $E1::V33($x) => $E2::V33($body),
        }
    };
}
/// builds `$E::Vn($f::<n>($args))` for a run-time n
#[macro_export]
macro_rules! new_any {
    ($E:ident, $n:expr, $f:ident ( $($args:expr),* )) => {
        match $n {
            0 => $E::V0($f::<0>($($args),*)),
            1 => $E::V1($f::<1>($($args),*)),
            2 => $E::V2($f::<2>($($args),*)),
            3 => $E::V3($f::<3>($($args),*)),
            5 => $E::V5($f::<5>($($args),*)),
            8 => $E::V8($f::<8>($($args),*)),
            _ => $E::V33($f::<33>($($args),*)),
        }
    };
}

pub fn fresh_array<const N: usize>() -> [Tok; N] {
    core::array::from_fn(|_| Tok::fresh())
}
pub fn empty_consumer<const N: usize>() -> ArrayConsumer<Tok, N> {
    ArrayConsumer::empty()
}
pub fn new_builder<const N: usize>() -> ArrayBuilder<Tok, N> {
    ArrayBuilder::new()
}

/// (id, bit-for-bit intact) of every token in a slice
pub fn ids_of(s: &[Tok]) -> Vec<(u32, bool)> {
    s.iter().map(|t| (t.id, t.intact())).collect()
}

pub enum MapOut<const N: usize> {
    Arr([Tok; N]),
    Returned,
}

/// `array::map_!` with closure `closure` and early-exit `exit` at the k-th call.
pub fn map_new<const N: usize>(arr: [Tok; N], closure: u8, exit: Exit, held: &mut Vec<Tok>) -> MapOut<N> {
    let mut calls = 0u32;
    let (kind, k) = exit.split();
    macro_rules! go {
        ($fault:expr) => {
            match closure {
                0 => {
                    let r: [Tok; N] = konst::array::map_!(arr, |t| {
                        calls += 1;
                        if calls == k {
                            $fault
                        }
                        t
                    });
                    MapOut::Arr(r)
                }
                1 => {
                    let r: [Tok; N] = konst::array::map_!(arr, |t| {
                        calls += 1;
                        if calls == k {
                            $fault
                        }
                        drop(t);
                        Tok::fresh()
                    });
                    MapOut::Arr(r)
                }
                2 => {
                    let r: [Tok; N] = konst::array::map_!(arr, |t| {
                        calls += 1;
                        if calls == k {
                            $fault
                        }
                        let c = t.clone();
                        held.push(t);
                        c
                    });
                    MapOut::Arr(r)
                }
                3 => {
                    // typed parameter and return type
                    let r = konst::array::map_!(arr, |t: Tok| -> Tok {
                        calls += 1;
                        if calls == k {
                            $fault
                        }
                        t
                    });
                    MapOut::Arr(r)
                }
                _ => {
                    // a function path instead of a closure
                    let r: [Tok; N] = konst::array::map_!(arr, tok_identity);
                    MapOut::Arr(r)
                }
            }
        };
    }
    #[allow(unreachable_code, clippy::never_loop)]
    match kind {
        0 => go!(()),
        1 => go!(panic!("ksim-injected: panic in closure")),
        2 => go!(break),
        3 => go!(continue),
        _ => go!(return MapOut::Returned),
    }
}

pub fn tok_identity(t: Tok) -> Tok {
    t
}

pub fn from_fn_new<const N: usize>(exit: Exit, typed: bool) -> MapOut<N> {
    let mut calls = 0u32;
    let (kind, k) = exit.split();
    macro_rules! go {
        ($fault:expr) => {{
            if typed {
                let r = konst::array::from_fn_!([Tok; N] => |_i| {
                    calls += 1;
                    if calls == k {
                        $fault
                    }
                    Tok::fresh()
                });
                MapOut::Arr(r)
            } else {
                let r: [Tok; N] = konst::array::from_fn_!(|_i| {
                    calls += 1;
                    if calls == k {
                        $fault
                    }
                    Tok::fresh()
                });
                MapOut::Arr(r)
            }
        }};
    }
    #[allow(unreachable_code)]
    match kind {
        0 => go!(()),
        1 => go!(panic!("ksim-injected: panic in closure")),
        2 => go!(break),
        3 => go!(continue),
        _ => go!(return MapOut::Returned),
    }
}

/// the older `array::map!` (by reference): output = clones of the input
pub fn map_old<const N: usize>(arr: &[Tok; N], exit: Exit) -> MapOut<N> {
    let mut calls = 0u32;
    let (kind, k) = exit.split();
    macro_rules! go {
        ($fault:expr) => {{
            let r: [Tok; N] = konst::array::map!(*arr, |ref t| {
                calls += 1;
                if calls == k {
                    $fault
                }
                Tok::clone(t)
            });
            MapOut::Arr(r)
        }};
    }
    #[allow(unreachable_code)]
    match kind {
        0 => go!(()),
        1 => go!(panic!("ksim-injected: panic in closure")),
        2 => go!(break),
        // `continue` re-runs the same index; this closure exits only on its k-th call
        3 => go!(continue),
        _ => go!(return MapOut::Returned),
    }
}

pub fn from_fn_old<const N: usize>(exit: Exit, typed: bool) -> MapOut<N> {
    let mut calls = 0u32;
    let (kind, k) = exit.split();
    macro_rules! go {
        ($fault:expr) => {{
            if typed {
                let r = konst::array::from_fn!([Tok; N] => |_i| {
                    calls += 1;
                    if calls == k {
                        $fault
                    }
                    Tok::fresh()
                });
                MapOut::Arr(r)
            } else {
                let r: [Tok; N] = konst::array::from_fn!(|_i| {
                    calls += 1;
                    if calls == k {
                        $fault
                    }
                    Tok::fresh()
                });
                MapOut::Arr(r)
            }
        }};
    }
    #[allow(unreachable_code)]
    match kind {
        0 => go!(()),
        1 => go!(panic!("ksim-injected: panic in closure")),
        2 => go!(break),
        3 => go!(continue),
        _ => go!(return MapOut::Returned),
    }
}

// ------------------------------------------------------------------------------------------
// destructure! shapes

pub struct S3 {
    x: Tok,
    y: Tok,
    z: Tok,
}
pub struct T3(Tok, Tok, Tok);
pub struct G<A, B> {
    a: A,
    b: B,
}
#[repr(packed)]
pub struct P {
    p0: u8,
    t: Tok,
    p1: u16,
    u: Tok,
}
/// packed(2): the struct's own alignment is 2 (not 1), its token fields sit at offsets 6 and 16
#[repr(C, packed(2))]
pub struct P2 {
    a: u32,
    tag: u16,
    t: Tok,
    n: u16,
    u: Tok,
}
pub struct Z {
    a: Tok,
    unit: (),
    ph: PhantomData<u8>,
    b: Tok,
}
pub struct GT<T>(T, T);

/// Builds the aggregate of `shape` from `toks` (exactly the shape's arity), destructures it
/// with `konst::destructure!`, returns the bound tokens in binding order.
pub fn destructure_shape(shape: u8, toks: Vec<Tok>) -> Vec<Tok> {
    let mut it = toks.into_iter();
    let mut nx = move || it.next().expect("arity");
    match shape % super::byvalue_model::N_SHAPES {
        0 => {
            let v = (nx(),);
            konst::destructure! {(a,) = v}
            vec![a]
        }
        1 => {
            let v = (nx(), nx());
            konst::destructure! {(a, b): (Tok, Tok) = v}
            vec![a, b]
        }
        2 => {
            let v = (nx(), nx(), nx());
            konst::destructure! {(a, _, c) = v}
            vec![a, c]
        }
        3 => {
            let v = (nx(), nx(), nx(), nx(), nx(), nx());
            konst::destructure! {(a, b, c, d, e, f) = v}
            vec![a, b, c, d, e, f]
        }
        4 => {
            let v = (nx(), nx(), nx(), nx(), nx(), nx(), nx(), nx(), nx(), nx(), nx(), nx(), nx(), nx(), nx(), nx());
            konst::destructure! {(t0, t1, t2, _, t4, t5, t6, t7, _, t9, t10, t11, t12, _, t14, t15) = v}
            vec![t0, t1, t2, t4, t5, t6, t7, t9, t10, t11, t12, t14, t15]
        }
        5 => {
            let v = [nx(), nx(), nx()];
            konst::destructure! {[a, b, c] = v}
            vec![a, b, c]
        }
        6 => {
            let v = [nx(), nx(), nx(), nx(), nx()];
            konst::destructure! {[a, rest @ .., z] = v}
            let rest: [Tok; 3] = rest;
            let mut out = vec![a];
            out.extend(rest);
            out.push(z);
            out
        }
        7 => {
            let v = [nx(), nx(), nx(), nx(), nx()];
            konst::destructure! {[.., z] = v}
            vec![z]
        }
        8 => {
            let v = [nx(), nx(), nx(), nx(), nx()];
            konst::destructure! {[_, b, ..] = v}
            vec![b]
        }
        9 => {
            let v: [Tok; 0] = [];
            konst::destructure! {[] = v}
            let u = ();
            konst::destructure! {() = u}
            vec![]
        }
        10 => {
            let v = S3 { x: nx(), y: nx(), z: nx() };
            konst::destructure! {S3 {x, y, z} = v}
            vec![x, y, z]
        }
        11 => {
            let v = S3 { x: nx(), y: nx(), z: nx() };
            konst::destructure! {S3 {x: a, y: _, z: c}: S3 = v}
            vec![a, c]
        }
        12 => {
            let v = T3(nx(), nx(), nx());
            konst::destructure! {T3(a, b, c) = v}
            vec![a, b, c]
        }
        13 => {
            let v = G { a: nx(), b: nx() };
            konst::destructure! {G::<Tok, Tok> {a, b} = v}
            vec![a, b]
        }
        14 => {
            let v = P { p0: 7, t: nx(), p1: 0xBEEF, u: nx() };
            konst::destructure! {P {p0, t, p1, u} = v}
            assert!(p0 == 7 && p1 == 0xBEEF, "packed scalar fields changed");
            vec![t, u]
        }
        15 => {
            let v = Z { a: nx(), unit: (), ph: PhantomData, b: nx() };
            konst::destructure! {Z {a, unit: (), ph: _, b} = v}
            vec![a, b]
        }
        16 => {
            let v = GT(nx(), nx());
            konst::destructure! {GT::<Tok>, (a, _) = v}
            vec![a]
        }
        17 => {
            let v = [nx(), nx(), nx(), nx(), nx(), nx(), nx(), nx()];
            konst::destructure! {[_, (b), c, .., x, y, _] = v}
            vec![b, c, x, y]
        }
        18 => {
            let v = [nx(), nx(), nx(), nx(), nx()];
            konst::destructure! {[rest @ .., z] = v}
            let rest: [Tok; 4] = rest;
            let mut out: Vec<Tok> = rest.into_iter().collect();
            out.push(z);
            out
        }
        19 => {
            let v = [nx(), nx(), nx(), nx(), nx()];
            konst::destructure! {[a, rest @ ..] = v}
            let rest: [Tok; 4] = rest;
            let mut out = vec![a];
            out.extend(rest);
            out
        }
        20 => {
            let v = [nx(), nx(), nx()];
            konst::destructure! {[..] = v}
            vec![]
        }
        21 => {
            let v = S3 { x: nx(), y: nx(), z: nx() };
            konst::destructure! {crate::worlds::byvalue_ops::S3 {x, y, z} = v}
            vec![x, y, z]
        }
        22 => {
            let v = [nx()];
            konst::destructure! {[a] = v}
            let w = [nx()];
            konst::destructure! {[_] = w}
            vec![a]
        }
        23 => {
            // fields are matched by name: the tokens must come back as (x, y, z) = (1st, 2nd, 3rd)
            let v = S3 { x: nx(), y: nx(), z: nx() };
            konst::destructure! {S3 {z, x, y} = v}
            vec![x, y, z]
        }
        24 => {
            let v = T3(nx(), nx(), nx());
            konst::destructure! {T3(a, _, c) = v}
            vec![a, c]
        }
        25 => {
            let v = [nx(), nx()];
            konst::destructure! {[a, rest @ .., z] = v}
            let _rest: [Tok; 0] = rest;
            vec![a, z]
        }
        _ => {
            let v = P2 { a: 0xDEAD_BEEF, tag: 0x1234, t: nx(), n: 0x5678, u: nx() };
            konst::destructure! {P2 {a, tag, t, n, u} = v}
            assert!(a == 0xDEAD_BEEF && tag == 0x1234 && n == 0x5678, "packed(2) scalar fields changed");
            vec![t, u]
        }
    }
}

// ------------------------------------------------------------------------------------------
// self-contained scenarios

/// `copy()` of ArrayConsumer<u32,N> / ArrayBuilder<u32,N>: independent iterator, same future.
pub fn copy_scenario<const N: usize>(front: usize, back: usize) -> Result<(), String> {
    let arr: [u32; N] = core::array::from_fn(|i| i as u32 * 7 + 1);
    let mut model: std::collections::VecDeque<u32> = arr.iter().copied().collect();
    let mut c = ArrayConsumer::new(arr);
    for _ in 0..front {
        let g = c.next().map(ManuallyDrop::into_inner);
        let e = model.pop_front();
        if g != e {
            return Err(format!("u32 consumer next: {:?} vs {:?}", g, e));
        }
    }
    for _ in 0..back {
        let g = c.next_back().map(ManuallyDrop::into_inner);
        let e = model.pop_back();
        if g != e {
            return Err(format!("u32 consumer next_back: {:?} vs {:?}", g, e));
        }
    }
    let mut c2 = c.copy();
    if c2.as_slice() != c.as_slice() || c.as_slice().iter().copied().collect::<Vec<_>>() != model.iter().copied().collect::<Vec<_>>() {
        return Err(format!("copy(): {:?} vs {:?} vs model {:?}", c2.as_slice(), c.as_slice(), model));
    }
    // drain the original from the front, the copy from the back: both must see the same future
    let mut m2 = model.clone();
    loop {
        let (g1, e1) = (c.next().map(ManuallyDrop::into_inner), model.pop_front());
        let (g2, e2) = (c2.next_back().map(ManuallyDrop::into_inner), m2.pop_back());
        if g1 != e1 || g2 != e2 {
            return Err(format!("after copy(): original {:?}/{:?}, copy {:?}/{:?}", g1, e1, g2, e2));
        }
        if g1.is_none() && g2.is_none() {
            break;
        }
    }
    c.assert_is_empty();
    c2.assert_is_empty();
    // builder
    let mut b = ArrayBuilder::<u32, N>::new();
    let pre = front.min(N);
    for i in 0..pre {
        b.push(i as u32);
    }
    let mut b2 = b.copy();
    for i in pre..N {
        b.push(100 + i as u32);
        b2.push(200 + i as u32);
    }
    if !b.is_full() || !b2.is_full() || b.len() != N {
        return Err("u32 builder not full after N pushes".into());
    }
    // over-filling a full builder must panic and leave it intact
    if std::panic::catch_unwind(std::panic::AssertUnwindSafe(|| b.push(9999))).is_ok() {
        return Err(format!("u32 builder of {N}: push onto a full builder did not panic"));
    }
    if b.len() != N || !b.is_full() || b.as_slice().len() != N {
        return Err(format!("u32 builder of {N}: state changed by a rejected push: len {}", b.len()));
    }
    let (r1, r2) = (b.build(), b2.build());
    for i in 0..N {
        let (e1, e2) = if i < pre { (i as u32, i as u32) } else { (100 + i as u32, 200 + i as u32) };
        if r1[i] != e1 || r2[i] != e2 {
            return Err(format!("u32 builder copy(): {:?} / {:?}", r1, r2));
        }
    }
    Ok(())
}

/// zero-sized Drop element: only the live count can be observed (and Miri watches the rest)
pub fn zst_scenario<const N: usize>(front: usize, back: usize, clone: bool) -> Result<(), String> {
    with(|l| {
        l.zst_live = 0;
        l.zst_drops = 0;
    });
    let arr: [ZTok; N] = core::array::from_fn(|_| ZTok::fresh());
    let mut c = ArrayConsumer::new(arr);
    let mut held: Vec<ZTok> = Vec::new();
    let mut remaining = N;
    for _ in 0..front {
        if let Some(t) = c.next() {
            held.push(ManuallyDrop::into_inner(t));
            remaining -= 1;
        }
    }
    for _ in 0..back {
        if let Some(t) = c.next_back() {
            held.push(ManuallyDrop::into_inner(t));
            remaining -= 1;
        }
    }
    if c.as_slice().len() != remaining {
        return Err(format!("ZST consumer as_slice().len() = {}, expected {remaining}", c.as_slice().len()));
    }
    let live = with(|l| l.zst_live);
    if live != N as i64 {
        return Err(format!("ZST live count {live} after takes, expected {N}"));
    }
    let mut cloned = 0;
    if clone {
        let c2 = c.clone();
        cloned = remaining;
        let live = with(|l| l.zst_live);
        if live != (N + remaining) as i64 || c2.as_slice().len() != remaining {
            return Err(format!("ZST clone: live {live}, expected {}", N + remaining));
        }
        drop(c2);
    }
    // builder: push what we hold, build only if full
    let mut extra_drops = 0u64;
    let mut b = ArrayBuilder::<ZTok, N>::new();
    let hl = held.len();
    for t in held.drain(..) {
        b.push(t);
    }
    if b.len() != hl {
        return Err("ZST builder len".into());
    }
    if b.is_full() {
        // a full builder of zero-sized elements must still reject one more
        let extra = ZTok::fresh();
        let d0 = with(|l| l.zst_drops);
        if std::panic::catch_unwind(std::panic::AssertUnwindSafe(|| b.push(extra))).is_ok() {
            return Err(format!("ZST builder of {N}: push onto a full builder did not panic"));
        }
        // the rejected token is dropped by the unwind (0 or 1 times on this non-completing path)
        extra_drops = with(|l| l.zst_drops) - d0;
        if extra_drops > 1 {
            return Err("ZST builder: the rejected token was dropped more than once".into());
        }
        if b.len() != N || !b.is_full() || b.as_slice().len() != N {
            return Err(format!("ZST builder of {N}: len {} after a rejected push", b.len()));
        }
        let arr = b.build();
        drop(arr);
    } else {
        drop(b);
    }
    drop(c);
    let (live, drops) = with(|l| (l.zst_live, l.zst_drops));
    let rejected_pushes: i64 = if hl == N { 1 } else { 0 };
    let want_live = rejected_pushes - extra_drops as i64;
    if live != want_live || drops != (N + cloned) as u64 + extra_drops {
        return Err(format!("ZST ledger: live {live} (expected {want_live}), drops {drops} (expected {})", (N + cloned) as u64 + extra_drops));
    }
    Ok(())
}

/// 64-byte, 64-aligned element with Drop: identity + derived payload, counted in the ledger
#[repr(align(64))]
pub struct BigTok {
    id: u64,
    pad: [u64; 7],
}
fn big_pad(id: u64) -> [u64; 7] {
    core::array::from_fn(|i| id.wrapping_mul(0x9E37_79B9_7F4A_7C15).rotate_left(i as u32 * 9) ^ i as u64)
}
impl BigTok {
    fn fresh(id: u64) -> BigTok {
        with(|l| l.zst_live += 1);
        BigTok { id, pad: big_pad(id) }
    }
    fn ok(&self) -> bool {
        self.pad == big_pad(self.id) && (self as *const BigTok as usize) % 64 == 0
    }
}
impl Clone for BigTok {
    fn clone(&self) -> BigTok {
        BigTok::fresh(self.id + 1000)
    }
}
impl Drop for BigTok {
    fn drop(&mut self) {
        let bad = self.pad != big_pad(self.id);
        with(|l| {
            l.zst_live -= 1;
            l.zst_drops += 1;
            if bad {
                l.payload_bad += 1;
            }
        });
    }
}

/// takes from both ends, optional clone, builder round trip, build, drop - for a large over-aligned element
pub fn big_scenario<const N: usize>(front: usize, back: usize, clone: bool) -> Result<(), String> {
    with(|l| {
        l.zst_live = 0;
        l.zst_drops = 0;
    });
    let arr: [BigTok; N] = core::array::from_fn(|i| BigTok::fresh(i as u64));
    let mut model: std::collections::VecDeque<u64> = (0..N as u64).collect();
    let mut c = ArrayConsumer::new(arr);
    let mut held: Vec<BigTok> = Vec::new();
    for _ in 0..front {
        let (g, e) = (c.next().map(ManuallyDrop::into_inner), model.pop_front());
        if g.as_ref().map(|t| (t.id, t.ok())) != e.map(|i| (i, true)) {
            return Err(format!("big consumer next: id {:?}, expected {:?}", g.as_ref().map(|t| t.id), e));
        }
        held.extend(g);
    }
    for _ in 0..back {
        let (g, e) = (c.next_back().map(ManuallyDrop::into_inner), model.pop_back());
        if g.as_ref().map(|t| (t.id, t.ok())) != e.map(|i| (i, true)) {
            return Err(format!("big consumer next_back: id {:?}, expected {:?}", g.as_ref().map(|t| t.id), e));
        }
        held.extend(g);
    }
    let ids: Vec<u64> = c.as_slice().iter().map(|t| t.id).collect();
    if ids != model.iter().copied().collect::<Vec<_>>() || c.as_slice().iter().any(|t| !t.ok()) {
        return Err(format!("big consumer as_slice: {:?}, expected {:?}", ids, model));
    }
    let mut cloned = 0;
    if clone {
        let c2 = c.clone();
        cloned = model.len();
        let ids2: Vec<u64> = c2.as_slice().iter().map(|t| t.id).collect();
        if ids2 != model.iter().map(|i| i + 1000).collect::<Vec<_>>() || c2.as_slice().iter().any(|t| !t.ok()) {
            return Err(format!("big consumer clone: {:?}", ids2));
        }
        drop(c2);
    }
    // everything left goes through a builder, then build
    while let Some(t) = c.next() {
        held.push(ManuallyDrop::into_inner(t));
    }
    c.assert_is_empty();
    let order: Vec<u64> = held.iter().map(|t| t.id).collect();
    let mut b = ArrayBuilder::<BigTok, N>::new();
    for t in held.drain(..) {
        b.push(t);
    }
    if !b.is_full() || b.as_slice().iter().map(|t| t.id).collect::<Vec<_>>() != order {
        return Err("big builder contents differ from the push order".into());
    }
    let out: [BigTok; N] = b.build();
    if out.iter().map(|t| t.id).collect::<Vec<_>>() != order || out.iter().any(|t| !t.ok()) {
        return Err("big builder build(): wrong order or altered payload".into());
    }
    let mapped: [BigTok; N] = konst::array::map_!(out, |t| t);
    if mapped.iter().map(|t| t.id).collect::<Vec<_>>() != order || mapped.iter().any(|t| !t.ok()) {
        return Err("map_! over big elements: wrong order or altered payload".into());
    }
    drop(mapped);
    let (live, drops, bad) = with(|l| (l.zst_live, l.zst_drops, l.payload_bad));
    if live != 0 || drops != (N + cloned) as u64 || bad != 0 {
        return Err(format!("big ledger: live {live} (expected 0), drops {drops} (expected {}), altered payloads {bad}", N + cloned));
    }
    Ok(())
}
