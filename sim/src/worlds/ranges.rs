//! World B: `into_iter!`/`for_each!` over `a..b`, `a..=b`, `a..` against core::ops ranges (C09).

use crate::iterworld::*;
use crate::kernel::*;
use crate::prng::Rng;
use konst::range::{RangeFromIter, RangeInclusiveIter, RangeInclusiveIterRev, RangeIter, RangeIterRev};
use serde::{Deserialize, Serialize};
use std::fmt::Debug;
use std::marker::PhantomData;
use std::ops::{Range, RangeFrom, RangeInclusive};

pub trait RElem: konst::iter::Step + Copy + PartialEq + PartialOrd + Debug + 'static {
    const WORLD: &'static str;
    const MINV: Self;
    const MAXV: Self;
    /// 8-bit types: all 65 536 bound pairs are also sampled uniformly and counted
    const SMALL: bool;
    fn to_s(self) -> String;
    fn from_s(s: &str) -> Self;
    fn anchors() -> Vec<Self>;
    /// checked move by `delta` steps
    fn offset(self, delta: i64) -> Option<Self>;
    fn from_index(i: u64) -> Self;
    /// number of steps from a to b (0 if b < a), saturating at usize::MAX
    fn dist(a: Self, b: Self) -> usize;
    fn pair_key(a: Self, b: Self) -> u64 {
        let _ = (a, b);
        0
    }
    /// `konst::for_range!{x in a..b => ..}` (integer types only)
    fn for_range(_a: Self, _b: Self) -> Option<Vec<Self>> {
        None
    }
}

macro_rules! impl_relem_int {
    ($($t:ident, $world:literal, $small:expr, $signed:expr;)*) => {$(
        impl RElem for $t {
            const WORLD: &'static str = $world;
            const MINV: Self = <$t>::MIN;
            const MAXV: Self = <$t>::MAX;
            const SMALL: bool = $small;
            fn to_s(self) -> String { self.to_string() }
            fn from_s(s: &str) -> Self { s.parse().expect("bad bound in setup") }
            fn anchors() -> Vec<Self> {
                let mut v = vec![<$t>::MIN, <$t>::MAX, 0 as $t, 1 as $t, 100 as $t];
                if $signed { v.push((0 as $t).wrapping_sub(1)); }
                v
            }
            fn offset(self, delta: i64) -> Option<Self> {
                if delta >= 0 {
                    <$t>::try_from(delta as u64).ok().and_then(|d| self.checked_add(d))
                } else {
                    <$t>::try_from(delta.unsigned_abs()).ok().and_then(|d| self.checked_sub(d))
                }
            }
            fn from_index(i: u64) -> Self { i as $t }
            fn dist(a: Self, b: Self) -> usize {
                if b <= a { 0 } else {
                    // the true distance, computed in a domain wide enough not to overflow
                    let d: u128 = if $signed {
                        (b as i128).wrapping_sub(a as i128) as u128
                    } else {
                        (b as u128).wrapping_sub(a as u128)
                    };
                    usize::try_from(d).unwrap_or(usize::MAX)
                }
            }
            fn for_range(a: Self, b: Self) -> Option<Vec<Self>> {
                let mut v = Vec::new();
                konst::for_range! {x in a..b =>
                    overrun(v.len());
                    v.push(x);
                }
                Some(v)
            }
            fn pair_key(a: Self, b: Self) -> u64 {
                if $small { ((a as u8 as u64) << 8) | (b as u8 as u64) } else { 0 }
            }
        }
    )*};
}
impl_relem_int! {
    u8, "ranges_u8", true, false;
    i8, "ranges_i8", true, true;
    u16, "ranges_u16", false, false;
    i16, "ranges_i16", false, true;
    u32, "ranges_u32", false, false;
    i32, "ranges_i32", false, true;
    u64, "ranges_u64", false, false;
    i64, "ranges_i64", false, true;
    u128, "ranges_u128", false, false;
    i128, "ranges_i128", false, true;
    usize, "ranges_usize", false, false;
    isize, "ranges_isize", false, true;
}

fn char_index(c: char) -> u32 {
    let n = c as u32;
    if n > 0xD7FF {
        n - 0x800
    } else {
        n
    }
}
fn char_from_index(i: u32) -> Option<char> {
    let n = if i > 0xD7FF { i + 0x800 } else { i };
    char::from_u32(n)
}
impl RElem for char {
    const WORLD: &'static str = "ranges_char";
    const MINV: Self = '\0';
    const MAXV: Self = char::MAX;
    const SMALL: bool = false;
    fn to_s(self) -> String {
        (self as u32).to_string()
    }
    fn from_s(s: &str) -> Self {
        char::from_u32(s.parse().expect("bad char bound")).expect("bad scalar in setup")
    }
    fn anchors() -> Vec<Self> {
        vec!['\0', '\u{D7FF}', '\u{E000}', char::MAX, 'a', '\u{D7FD}', '\u{E002}', '\u{80}', '\u{FFFF}']
    }
    fn offset(self, delta: i64) -> Option<Self> {
        let i = char_index(self) as i64 + delta;
        if i < 0 {
            None
        } else {
            char_from_index(u32::try_from(i).ok()?)
        }
    }
    fn from_index(i: u64) -> Self {
        char_from_index((i % 0x10F800) as u32).unwrap_or('a')
    }
    fn dist(a: Self, b: Self) -> usize {
        if b <= a {
            0
        } else {
            (char_index(b) - char_index(a)) as usize
        }
    }
}

#[derive(Serialize, Deserialize, Clone, Copy, Debug, PartialEq)]
pub enum RKind {
    Excl,
    Incl,
    InclByRef,
    ExclByRef,
    From,
    FromByRef,
}

#[derive(Serialize, Deserialize, Clone, Debug)]
pub struct RSetup {
    pub kind: RKind,
    pub start: String,
    pub end: String,
}

pub enum RK<T> {
    R(RangeIter<T>),
    RRev(RangeIterRev<T>),
    RI(RangeInclusiveIter<T>),
    RIRev(RangeInclusiveIterRev<T>),
    RF(RangeFromIter<T>),
}

#[derive(Clone)]
pub enum RMI<T> {
    R(Range<T>),
    RI(RangeInclusive<T>),
    RF(RangeFrom<T>),
}
#[derive(Clone)]
pub struct RM<T> {
    it: RMI<T>,
    rev: bool,
}

pub struct RangeFam<T>(PhantomData<T>);

/// items a for_each! drain may collect before it is cut off (keeps every run bounded)
const DRAIN_CAP: usize = 96;

/// bounded progress: a drain that yields more than the model can ever yield is cut off by an
/// unwinding panic (caught by the guard and reported as a violation), never waited for
fn overrun(n: usize) {
    if n > DRAIN_CAP + 8 {
        panic!("ksim: for_each! did not terminate within the model's bound");
    }
}

impl<T: RElem> Fam for RangeFam<T>
where
    Range<T>: DoubleEndedIterator<Item = T> + Clone,
    RangeInclusive<T>: DoubleEndedIterator<Item = T> + Clone,
    RangeFrom<T>: Iterator<Item = T> + Clone,
{
    const WORLD: &'static str = T::WORLD;
    const PROP: &'static str = "C09";
    type Setup = RSetup;
    type Datum = ();
    type K<'a> = RK<T>;
    type M<'a> = RM<T>;
    type Item = T;

    fn gen_setup(rng: &mut Rng, tier: Tier, _prop: &str) -> RSetup {
        let thorough = tier == Tier::Thorough;
        let kind = match rng.below(10) {
            0..=2 => RKind::Excl,
            3..=5 => RKind::Incl,
            6 => RKind::InclByRef,
            7 => RKind::ExclByRef,
            8 => RKind::From,
            _ => RKind::FromByRef,
        };
        let (start, end): (T, T) = if rng.chance(1, 40) {
            // the whole type (only a bounded number of steps from either end is ever taken)
            (T::MINV, T::MAXV)
        } else if rng.chance(1, 16) {
            // two independent anchors: wide spans that are not the whole type (MIN..0, -1..=MAX, ...)
            // as well as far-inverted ranges; only a bounded number of steps is ever taken
            let anchors = T::anchors();
            let a = *rng.pick(&anchors);
            let b = *rng.pick(&anchors);
            let a = a.offset(rng.range(0, 4) as i64 - 2).unwrap_or(a);
            let b = b.offset(rng.range(0, 4) as i64 - 2).unwrap_or(b);
            (a, b)
        } else if T::SMALL && rng.chance(1, 2) {
            (T::from_index(rng.below(256)), T::from_index(rng.below(256)))
        } else {
            let anchors = T::anchors();
            let a = *rng.pick(&anchors);
            let d1 = rng.range(0, 6) as i64 - 3;
            let p = a.offset(d1).unwrap_or(a);
            let maxspan = if thorough { 300 } else { 40 };
            let span: i64 = match rng.below(8) {
                0 => 0,
                1 => -(rng.range(1, 5) as i64),
                2 => rng.range(0, 3) as i64,
                _ => rng.range(0, maxspan) as i64,
            };
            if rng.chance(1, 2) {
                // anchor the start
                let e = p.offset(span).unwrap_or(if span > 0 { T::MAXV } else { T::MINV });
                (p, e)
            } else {
                // anchor the end
                let s = p.offset(-span).unwrap_or(if span > 0 { T::MINV } else { T::MAXV });
                (s, p)
            }
        };
        let start = if matches!(kind, RKind::From | RKind::FromByRef) && T::dist(start, T::MAXV) > 1000 && rng.chance(1, 2) {
            // RangeFrom close to MAX (never stepped past MAX - 1)
            T::MAXV.offset(-(rng.range(0, 12) as i64)).unwrap_or(start)
        } else {
            start
        };
        RSetup { kind, start: start.to_s(), end: end.to_s() }
    }

    fn shrink_setup(s: &RSetup) -> Vec<RSetup> {
        let (a, b) = (T::from_s(&s.start), T::from_s(&s.end));
        let mut out = Vec::new();
        if let Some(b2) = b.offset(-1) {
            if b2 >= a {
                out.push(RSetup { end: b2.to_s(), ..s.clone() });
            }
        }
        if let Some(a2) = a.offset(1) {
            if a2 <= b {
                out.push(RSetup { start: a2.to_s(), ..s.clone() });
            }
        }
        out
    }

    fn datum(_s: &RSetup) {}

    fn m_new<'a>(s: &RSetup, _d: &'a ()) -> RM<T> {
        let (a, b) = (T::from_s(&s.start), T::from_s(&s.end));
        let it = match s.kind {
            RKind::Excl | RKind::ExclByRef => RMI::R(a..b),
            RKind::Incl | RKind::InclByRef => RMI::RI(a..=b),
            RKind::From | RKind::FromByRef => RMI::RF(a..),
        };
        RM { it, rev: false }
    }

    fn k_new<'a>(s: &RSetup, _d: &'a ()) -> RK<T> {
        let (a, b) = (T::from_s(&s.start), T::from_s(&s.end));
        match s.kind {
            RKind::Excl => RK::R(konst::iter::into_iter!(a..b)),
            RKind::ExclByRef => {
                let r = a..b;
                RK::R(konst::iter::into_iter!(&r))
            }
            RKind::Incl => RK::RI(konst::iter::into_iter!(a..=b)),
            RKind::InclByRef => {
                let r = a..=b;
                RK::RI(konst::iter::into_iter!(&r))
            }
            RKind::From => RK::RF(konst::iter::into_iter!(a..)),
            RKind::FromByRef => {
                let r = a..;
                RK::RF(konst::iter::into_iter!(&r))
            }
        }
    }

    fn m_next<'a>(m: &mut RM<T>, _d: &'a ()) -> Option<T> {
        match (&mut m.it, m.rev) {
            (RMI::R(r), false) => r.next(),
            (RMI::R(r), true) => r.next_back(),
            (RMI::RI(r), false) => r.next(),
            (RMI::RI(r), true) => r.next_back(),
            (RMI::RF(r), _) => r.next(),
        }
    }
    fn m_next_back<'a>(m: &mut RM<T>, _d: &'a ()) -> Option<T> {
        match (&mut m.it, m.rev) {
            (RMI::R(r), false) => r.next_back(),
            (RMI::R(r), true) => r.next(),
            (RMI::RI(r), false) => r.next_back(),
            (RMI::RI(r), true) => r.next(),
            (RMI::RF(_), _) => None,
        }
    }
    fn m_can_back(m: &RM<T>) -> bool {
        !matches!(m.it, RMI::RF(_))
    }
    fn m_can_rev(m: &RM<T>) -> bool {
        !matches!(m.it, RMI::RF(_))
    }
    fn m_rev<'a>(mut m: RM<T>, _d: &'a ()) -> RM<T> {
        m.rev = !m.rev;
        m
    }
    fn m_observe<'a>(_m: &RM<T>, _d: &'a ()) -> Option<T> {
        None
    }
    fn m_remaining(m: &RM<T>) -> usize {
        match &m.it {
            RMI::R(r) => r.size_hint().0,
            RMI::RI(r) => r.size_hint().0,
            // safe steps: start ..= MAX-1 may be yielded; yielding MAX would compute MAX's successor
            RMI::RF(r) => T::dist(r.start, T::MAXV),
        }
    }
    fn m_exhaustible(m: &RM<T>) -> bool {
        !matches!(m.it, RMI::RF(_))
    }
    fn m_state_id(m: &RM<T>) -> u64 {
        (match &m.it {
            RMI::R(_) => 1,
            RMI::RI(r) => 2 + 10 * ((*r.start() == T::MINV) as u64 + 2 * (*r.end() == T::MAXV) as u64),
            RMI::RF(_) => 3,
        }) * 2
            + m.rev as u64
    }

    fn k_next<'a>(k: &RK<T>, _d: &'a ()) -> Option<(T, RK<T>)> {
        match k {
            RK::R(it) => it.copy().next().map(|(x, n)| (x, RK::R(n))),
            RK::RRev(it) => it.copy().next().map(|(x, n)| (x, RK::RRev(n))),
            RK::RI(it) => it.copy().next().map(|(x, n)| (x, RK::RI(n))),
            RK::RIRev(it) => it.copy().next().map(|(x, n)| (x, RK::RIRev(n))),
            RK::RF(it) => it.copy().next().map(|(x, n)| (x, RK::RF(n))),
        }
    }
    fn k_next_back<'a>(k: &RK<T>, _d: &'a ()) -> Option<(T, RK<T>)> {
        match k {
            RK::R(it) => it.copy().next_back().map(|(x, n)| (x, RK::R(n))),
            RK::RRev(it) => it.copy().next_back().map(|(x, n)| (x, RK::RRev(n))),
            RK::RI(it) => it.copy().next_back().map(|(x, n)| (x, RK::RI(n))),
            RK::RIRev(it) => it.copy().next_back().map(|(x, n)| (x, RK::RIRev(n))),
            RK::RF(_) => None,
        }
    }
    fn k_copy<'a>(k: &RK<T>, _d: &'a ()) -> RK<T> {
        match k {
            RK::R(it) => RK::R(it.copy()),
            RK::RRev(it) => RK::RRev(it.copy()),
            RK::RI(it) => RK::RI(it.copy()),
            RK::RIRev(it) => RK::RIRev(it.copy()),
            RK::RF(it) => RK::RF(it.copy()),
        }
    }
    fn k_rev<'a>(k: RK<T>, _d: &'a ()) -> RK<T> {
        match k {
            RK::R(it) => RK::RRev(it.rev()),
            RK::RRev(it) => RK::R(it.rev()),
            RK::RI(it) => RK::RIRev(it.rev()),
            RK::RIRev(it) => RK::RI(it.rev()),
            RK::RF(it) => RK::RF(it),
        }
    }
    fn k_observe<'a>(_k: &RK<T>, _d: &'a ()) -> Option<T> {
        None
    }
    fn escaped(_i: &T) -> Option<String> {
        None
    }

    fn probes(s: &RSetup, m: &RM<T>, op: &IOp, cov: &mut Cov) {
        let front = matches!(op, IOp::Next { .. }) != m.rev;
        let mut c = m.clone();
        c.rev = false;
        let item = if front { Self::m_next(&mut c, &()) } else { Self::m_next_back(&mut c, &()) };
        if let (RMI::RI(_), Some(x)) = (&m.it, item) {
            if front && x == T::MAXV {
                cov.probe("incl-range-yields-max-from-front");
            }
            if !front && x == T::MINV {
                cov.probe("incl-range-yields-min-from-back");
            }
        }
        if let (RMI::R(_), None) = (&m.it, item) {
            let (a, b) = (T::from_s(&s.start), T::from_s(&s.end));
            if a > b {
                cov.probe("inverted-range-stepped");
            }
        }
        if let Some(x) = item {
            if T::WORLD == "ranges_char" {
                let n = x.to_s();
                if !front && n == "55295" {
                    cov.probe("char-range-crossed-surrogate-gap-from-back");
                }
                if front && n == "57344" {
                    cov.probe("char-range-crossed-surrogate-gap-from-front");
                }
            }
        }
        if matches!(m.it, RMI::RF(_)) {
            cov.probe("range-from-stepped");
        }
        if T::SMALL && !matches!(m.it, RMI::RF(_)) {
            cov.set_insert("bound_pairs_8bit_seen", T::pair_key(T::from_s(&s.start), T::from_s(&s.end)));
        }
    }

    fn sweep_setups() -> Vec<RSetup> {
        let mut v = Vec::new();
        let mut pts: Vec<T> = Vec::new();
        for a in T::anchors() {
            for d in [-2i64, -1, 0, 1, 2] {
                if let Some(p) = a.offset(d) {
                    if !pts.contains(&p) {
                        pts.push(p);
                    }
                }
            }
        }
        for &a in &pts {
            for span in [-1i64, 0, 1, 2, 5] {
                let Some(b) = a.offset(span) else { continue };
                for kind in [RKind::Excl, RKind::Incl, RKind::InclByRef, RKind::ExclByRef] {
                    v.push(RSetup { kind, start: a.to_s(), end: b.to_s() });
                }
            }
            if T::dist(a, T::MAXV) >= 1 {
                v.push(RSetup { kind: RKind::From, start: a.to_s(), end: a.to_s() });
                v.push(RSetup { kind: RKind::FromByRef, start: a.to_s(), end: a.to_s() });
            }
        }
        v
    }

    fn required_probes() -> &'static [&'static str] {
        if T::WORLD == "ranges_char" {
            &[
                "incl-range-yields-max-from-front", "incl-range-yields-min-from-back", "inverted-range-stepped", "range-from-stepped",
                "char-range-crossed-surrogate-gap-from-back", "char-range-crossed-surrogate-gap-from-front",
                "for_each-on-range-value", "for_each-on-forked-mid-iteration",
            ]
        } else {
            &[
                "incl-range-yields-max-from-front", "incl-range-yields-min-from-back", "inverted-range-stepped", "range-from-stepped",
                "for_each-on-range-value", "for_each-on-forked-mid-iteration",
            ]
        }
    }

    /// `for_each!` on the range values themselves (by value, by reference, reversed).
    fn extra<'a>(s: &RSetup, _d: &'a (), ctx: &mut Ctx, step: usize) -> Res {
        if !ctx.wants("C09") && !ctx.wants("C01") {
            return Ok(());
        }
        let (a, b) = (T::from_s(&s.start), T::from_s(&s.end));
        let incl = matches!(s.kind, RKind::Incl | RKind::InclByRef);
        if matches!(s.kind, RKind::From | RKind::FromByRef) {
            return Ok(());
        }
        let count = if incl { T::dist(a, b).saturating_add((a <= b) as usize) } else { T::dist(a, b) };
        if count > DRAIN_CAP {
            return Ok(());
        }
        let (fwd, bwd): (Vec<T>, Vec<T>) = if incl { ((a..=b).collect(), (a..=b).rev().collect()) } else { ((a..b).collect(), (a..b).rev().collect()) };
        let got = guard(|| {
            let mut g1: Vec<T> = Vec::new();
            let mut g2: Vec<T> = Vec::new();
            let mut g3: Vec<T> = Vec::new();
            if incl {
                let r = a..=b;
                konst::iter::for_each! {x in a..=b => overrun(g1.len()); g1.push(x); }
                konst::iter::for_each! {x in &r, rev() => overrun(g2.len()); g2.push(x); }
                konst::iter::for_each! {x in konst::iter::into_iter!(&r).rev() => overrun(g3.len()); g3.push(x); }
            } else {
                let r = a..b;
                konst::iter::for_each! {x in a..b => overrun(g1.len()); g1.push(x); }
                konst::iter::for_each! {x in &r, rev() => overrun(g2.len()); g2.push(x); }
                konst::iter::for_each! {x in konst::iter::into_iter!(a..b).rev() => overrun(g3.len()); g3.push(x); }
            }
            (g1, g2, g3)
        });
        let (g1, g2, g3) = match got {
            Ok(x) => x,
            Err(m) => return Err(viol("unexpected-panic", step, format!("for_each! over {:?} panicked: {m}", s))),
        };
        ctx.cov.probe("for_each-on-range-value");
        if !incl && ctx.wants("C09") {
            match guard(|| T::for_range(a, b)) {
                Err(m) => return Err(viol("unexpected-panic", step, format!("for_range! over {:?} panicked: {m}", s))),
                Ok(Some(v)) if v != fwd => {
                    return Err(viol("for_range-mismatch", step, format!("for_range! over {:?} yields {:?}, std yields {:?}", s, v, fwd)));
                }
                _ => {}
            }
        }
        if ctx.wants("C09") && (g1 != fwd || g2 != bwd || g3 != bwd) {
            return Err(viol(
                "for_each-mismatch",
                step,
                format!("for_each! over {:?}: forward {:?} (std {:?}); rev() adapter {:?}, inherent rev {:?} (std {:?})", s, g1, fwd, g2, g3, bwd),
            ));
        }
        Ok(())
    }

    /// a fork in the middle of an iteration is drained through `for_each!`
    fn fork_extra<'a>(k: &RK<T>, m: &RM<T>, _d: &'a (), ctx: &mut Ctx, step: usize) -> Res {
        if !ctx.wants("C09") {
            return Ok(());
        }
        if matches!(m.it, RMI::RF(_)) || Self::m_remaining(m) > DRAIN_CAP {
            return Ok(());
        }
        let mut mf = m.clone();
        let mut fwd = Vec::new();
        while let Some(x) = Self::m_next(&mut mf, &()) {
            fwd.push(x);
        }
        let mut bwd = fwd.clone();
        bwd.reverse();
        let got = guard(|| {
            let mut g1: Vec<T> = Vec::new();
            let mut g2: Vec<T> = Vec::new();
            let mut g3: Vec<T> = Vec::new();
            macro_rules! drain {
                ($it:expr) => {{
                    konst::iter::for_each! {x in $it.copy() => overrun(g1.len()); g1.push(x); }
                    konst::iter::for_each! {x in $it.copy(), rev() => overrun(g2.len()); g2.push(x); }
                    konst::iter::for_each! {x in $it.copy().rev() => overrun(g3.len()); g3.push(x); }
                }};
            }
            match k {
                RK::R(it) => drain!(it),
                RK::RRev(it) => drain!(it),
                RK::RI(it) => drain!(it),
                RK::RIRev(it) => drain!(it),
                RK::RF(_) => {}
            }
            (g1, g2, g3)
        });
        let (g1, g2, g3) = match got {
            Ok(x) => x,
            Err(msg) => return Err(viol("unexpected-panic", step, format!("for_each! over a forked iterator panicked: {msg}"))),
        };
        ctx.cov.probe("for_each-on-forked-mid-iteration");
        if g1 != fwd || g2 != bwd || g3 != bwd {
            return Err(viol(
                "for_each-mismatch",
                step,
                format!("for_each! over a fork: forward {:?} (std {:?}); rev() adapter {:?}, inherent rev {:?} (std {:?})", g1, fwd, g2, g3, bwd),
            ));
        }
        Ok(())
    }
}
