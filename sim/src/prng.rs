//! Hand-written PRNG so that the stream can never change under us (no dependency on `rand`).
//! `VERIF_SEED` -> splitmix64 -> per-run seed -> xoshiro256**.
//! Nothing outside the *planner* ever draws from a generator: logging, coverage hashing and
//! evidence writing never touch it and never read a clock.

#[inline]
pub fn splitmix64(state: &mut u64) -> u64 {
    *state = state.wrapping_add(0x9E37_79B9_7F4A_7C15);
    let mut z = *state;
    z = (z ^ (z >> 30)).wrapping_mul(0xBF58_476D_1CE4_E5B9);
    z = (z ^ (z >> 27)).wrapping_mul(0x94D0_49BB_1331_11EB);
    z ^ (z >> 31)
}

pub fn fnv1a(bytes: &[u8]) -> u64 {
    let mut h: u64 = 0xcbf2_9ce4_8422_2325;
    for b in bytes {
        h ^= *b as u64;
        h = h.wrapping_mul(0x0000_0100_0000_01B3);
    }
    h
}

/// Mixes a value into a running 64-bit fingerprint (used only for coverage accounting).
#[inline]
pub fn mix(h: u64, v: u64) -> u64 {
    let mut s = h ^ v.wrapping_mul(0x9E37_79B9_7F4A_7C15);
    splitmix64(&mut s)
}

/// Per-run seed: a pure function of (VERIF_SEED, stream label, run index).
pub fn run_seed(verif_seed: u64, label: &str, run: u64) -> u64 {
    let mut s = verif_seed ^ fnv1a(label.as_bytes()).rotate_left(17);
    let a = splitmix64(&mut s);
    let mut t = a ^ run.wrapping_mul(0xD6E8_FEB8_6659_FD93);
    splitmix64(&mut t)
}

#[derive(Clone, Debug)]
pub struct Rng {
    s: [u64; 4],
}

impl Rng {
    pub fn new(seed: u64) -> Self {
        let mut sm = seed;
        let s = [
            splitmix64(&mut sm),
            splitmix64(&mut sm),
            splitmix64(&mut sm),
            splitmix64(&mut sm),
        ];
        Rng { s }
    }

    #[inline]
    pub fn next_u64(&mut self) -> u64 {
        let result = self.s[1].wrapping_mul(5).rotate_left(7).wrapping_mul(9);
        let t = self.s[1] << 17;
        self.s[2] ^= self.s[0];
        self.s[3] ^= self.s[1];
        self.s[1] ^= self.s[2];
        self.s[0] ^= self.s[3];
        self.s[2] ^= t;
        self.s[3] = self.s[3].rotate_left(45);
        result
    }

    /// Uniform in `0..n` (n > 0). Modulo bias is irrelevant at the sizes used here.
    #[inline]
    pub fn below(&mut self, n: u64) -> u64 {
        debug_assert!(n > 0);
        self.next_u64() % n
    }

    #[inline]
    pub fn range(&mut self, lo: usize, hi_incl: usize) -> usize {
        debug_assert!(lo <= hi_incl);
        lo + self.below((hi_incl - lo) as u64 + 1) as usize
    }

    /// true with probability num/den
    #[inline]
    pub fn chance(&mut self, num: u64, den: u64) -> bool {
        self.below(den) < num
    }

    #[inline]
    pub fn pick<'a, T>(&mut self, xs: &'a [T]) -> &'a T {
        &xs[self.below(xs.len() as u64) as usize]
    }

    /// Picks an index according to integer weights (all-zero weights pick index 0).
    pub fn weighted(&mut self, weights: &[u32]) -> usize {
        let total: u64 = weights.iter().map(|w| *w as u64).sum();
        if total == 0 {
            return 0;
        }
        let mut x = self.below(total);
        for (i, w) in weights.iter().enumerate() {
            if x < *w as u64 {
                return i;
            }
            x -= *w as u64;
        }
        weights.len() - 1
    }
}
