//! Which worlds serve which property, with how many runs; per-property descriptive metadata.

use crate::kernel::*;
use crate::runner::ExtraResult;
use serde_json::{json, Value};
use std::path::Path;

pub struct Stage {
    pub world: &'static str,
    pub runs: u64,
    /// true: the stage enumerates the world's fault sweep completely instead of sampling
    pub sweep: bool,
}

/// Dispatch on the world name to its type.
macro_rules! with_world {
    ($name:expr, $W:ident => $body:expr) => {
        match $name {
            "parser" => {
                type $W = crate::worlds::parser::ParserWorld;
                $body
            }
            "slices_u8" => {
                type $W = crate::iterworld::IterWorld<crate::worlds::slices::SliceFam<u8>>;
                $body
            }
            "slices_zst" => {
                type $W = crate::iterworld::IterWorld<crate::worlds::slices::SliceFam<()>>;
                $body
            }
            "slices_odd" => {
                type $W = crate::iterworld::IterWorld<crate::worlds::slices::SliceFam<crate::worlds::slices::Odd>>;
                $body
            }
            "slices_big" => {
                type $W = crate::iterworld::IterWorld<crate::worlds::slices::SliceFam<crate::worlds::slices::Big>>;
                $body
            }
            "ranges_u8" => {
                type $W = crate::iterworld::IterWorld<crate::worlds::ranges::RangeFam<u8>>;
                $body
            }
            "ranges_i8" => {
                type $W = crate::iterworld::IterWorld<crate::worlds::ranges::RangeFam<i8>>;
                $body
            }
            "ranges_u16" => {
                type $W = crate::iterworld::IterWorld<crate::worlds::ranges::RangeFam<u16>>;
                $body
            }
            "ranges_i16" => {
                type $W = crate::iterworld::IterWorld<crate::worlds::ranges::RangeFam<i16>>;
                $body
            }
            "ranges_u32" => {
                type $W = crate::iterworld::IterWorld<crate::worlds::ranges::RangeFam<u32>>;
                $body
            }
            "ranges_i32" => {
                type $W = crate::iterworld::IterWorld<crate::worlds::ranges::RangeFam<i32>>;
                $body
            }
            "ranges_u64" => {
                type $W = crate::iterworld::IterWorld<crate::worlds::ranges::RangeFam<u64>>;
                $body
            }
            "ranges_i64" => {
                type $W = crate::iterworld::IterWorld<crate::worlds::ranges::RangeFam<i64>>;
                $body
            }
            "ranges_u128" => {
                type $W = crate::iterworld::IterWorld<crate::worlds::ranges::RangeFam<u128>>;
                $body
            }
            "ranges_i128" => {
                type $W = crate::iterworld::IterWorld<crate::worlds::ranges::RangeFam<i128>>;
                $body
            }
            "ranges_usize" => {
                type $W = crate::iterworld::IterWorld<crate::worlds::ranges::RangeFam<usize>>;
                $body
            }
            "ranges_isize" => {
                type $W = crate::iterworld::IterWorld<crate::worlds::ranges::RangeFam<isize>>;
                $body
            }
            "ranges_char" => {
                type $W = crate::iterworld::IterWorld<crate::worlds::ranges::RangeFam<char>>;
                $body
            }
            "byvalue" => {
                type $W = crate::worlds::byvalue::ByValueWorld;
                $body
            }
            "chars" => {
                type $W = crate::iterworld::IterWorld<crate::worlds::chars::CharFam>;
                $body
            }
            "splits" => {
                type $W = crate::iterworld::IterWorld<crate::worlds::splits::SplitFam>;
                $body
            }
            other => panic!("unknown world {other}"),
        }
    };
}
pub(crate) use with_world;

fn runs_override(default: u64) -> u64 {
    std::env::var("KSIM_RUNS").ok().and_then(|s| s.parse().ok()).unwrap_or(default)
}

/// the world's completely enumerated sweep (fault sweep / exhaustion sweep) as a stage
fn sw(world: &'static str) -> Stage {
    let n = with_world!(world, W => <W as World>::sweep_len());
    Stage { world, runs: n, sweep: true }
}

pub fn stages_for(prop: &str, tier: Tier) -> Option<Vec<Stage>> {
    let q = tier == Tier::Quick;
    let st = |world: &'static str, quick: u64, thorough: u64| Stage { world, runs: runs_override(if q { quick } else { thorough }), sweep: false };
    Some(match prop {
        "C13" => vec![sw("parser"), st("parser", 4_000_000, 200_000_000)],
        "C14" => vec![sw("parser"), st("parser", 4_000_000, 200_000_000)],
        "C01" => vec![
            sw("parser"), sw("splits"), sw("chars"), sw("slices_u8"), sw("slices_zst"), sw("slices_big"), sw("slices_odd"), sw("ranges_char"), sw("ranges_u8"), sw("ranges_i128"),
            st("parser", 400_000, 8_000_000),
            st("splits", 600_000, 12_000_000),
            st("chars", 400_000, 8_000_000),
            st("slices_u8", 300_000, 6_000_000),
            st("slices_zst", 150_000, 3_000_000),
            st("slices_big", 150_000, 3_000_000),
            st("slices_odd", 150_000, 3_000_000),
            st("ranges_char", 150_000, 3_000_000),
            st("ranges_u8", 100_000, 2_000_000),
            st("ranges_i128", 50_000, 1_000_000),
            Stage { world: "byvalue", runs: <crate::worlds::byvalue::ByValueWorld as World>::sweep_len(), sweep: true },
            st("byvalue", 400_000, 8_000_000),
        ],
        "C15" | "C11" => {
            let sweep_len = <crate::worlds::byvalue::ByValueWorld as World>::sweep_len();
            vec![Stage { world: "byvalue", runs: sweep_len, sweep: true }, st("byvalue", 3_000_000, 150_000_000)]
        }
        "C07" => vec![sw("chars"), st("chars", 6_000_000, 300_000_000)],
        "C06" => vec![sw("splits"), st("splits", 6_000_000, 300_000_000)],
        "C09" => vec![
            sw("ranges_u8"), sw("ranges_i8"), sw("ranges_char"), sw("ranges_u16"), sw("ranges_i16"), sw("ranges_u32"), sw("ranges_i32"),
            sw("ranges_u64"), sw("ranges_i64"), sw("ranges_u128"), sw("ranges_i128"), sw("ranges_usize"), sw("ranges_isize"),
            st("ranges_u8", 1_200_000, 40_000_000), st("ranges_i8", 1_200_000, 40_000_000), st("ranges_char", 900_000, 40_000_000),
            st("ranges_u16", 300_000, 12_000_000), st("ranges_i16", 300_000, 12_000_000), st("ranges_u32", 300_000, 12_000_000),
            st("ranges_i32", 300_000, 12_000_000), st("ranges_u64", 300_000, 12_000_000), st("ranges_i64", 300_000, 12_000_000),
            st("ranges_u128", 300_000, 12_000_000), st("ranges_i128", 300_000, 12_000_000), st("ranges_usize", 300_000, 12_000_000),
            st("ranges_isize", 300_000, 12_000_000),
        ],
        "C08" => vec![sw("slices_u8"), sw("slices_zst"), sw("slices_big"), sw("slices_odd"), st("slices_u8", 4_000_000, 160_000_000), st("slices_zst", 1_500_000, 60_000_000), st("slices_big", 1_500_000, 60_000_000), st("slices_odd", 1_500_000, 60_000_000)],
        _ => return None,
    })
}

pub struct PropInfo {
    pub level: &'static str,
    pub rule: &'static str,
    pub real_vs_stub: Value,
    pub assumptions: Vec<&'static str>,
}

const RULE_COMMON: &str = "Cases are (world setup, operation plan) pairs drawn by the seeded planner from VERIF_SEED (run seed = mix(VERIF_SEED, world/property label, run index); xoshiro256**), the plan being generated from the seed and the reference model only. A run is NON-TRIVIAL when it has >= 3 state-changing steps and at least one of: a change of working end (front/back) on a handle, a fork (copy) of a handle, a failing operation (Err/None/modelled panic), a fired fault. Runs are DISTINCT when the 64-bit fingerprint of their whole sequence of (operation kind, abstract pre-state, outcome kind) differs; distinct_nontrivial is the size of the union of those fingerprint sets over all worker processes (each worker's set is capped at 2^22 entries, so the count is conservative).";

const RULE_BYVALUE: &str = "Two stages. (1) FAULT SWEEP, enumerated completely: for every N in {0,1,2,3,5,8}, every fault site (Tok::clone inside ArrayConsumer::clone / ArrayBuilder::clone, Tok::drop inside the two Drop impls, the closure of map_! (3 closures), from_fn_!, map!, from_fn! with panic / break / continue / return) and every callback index k in 1..=N+1 (k=N+1: armed but cannot fire), plus the three misuse panics, one short scenario (consumer half-taken from both ends, builder half-filled). (2) SEEDED HISTORIES: operation plans over up to 6 live containers and a pool of caller-held tokens, drawn from VERIF_SEED by the planner from the model only; a third of the runs are fault-free, the others arm 1-3 faults. A run is NON-TRIVIAL when it has >= 3 state-changing steps and at least one failing operation (modelled panic / None / early return) or fired fault; runs are DISTINCT by the 64-bit fingerprint of their sequence of (operation kind, live-object count, held count, outcome kind); distinct_nontrivial is the measured size of the union of those fingerprint sets.";

pub fn prop_info(prop: &str) -> PropInfo {
    let parser_real = json!({
        "real_code": ["konst::Parser (every public method)", "konst::parsing::ParseError", "konst::parser_method! (8 fixed forms)", "konst::string::{trim*,strip_*,find*,rfind*,split_once,rsplit_once,split_at}", "konst::primitive::parse_*"],
        "reference_models": ["offset arithmetic over the original text", "std str::split/rsplit (protocol sub-scenarios)", "modelled one-shot split flag"],
        "stubs": [],
    });
    match prop {
        "C13" => PropInfo {
            level: "exploration",
            rule: RULE_COMMON,
            real_vs_stub: parser_real,
            assumptions: vec![
                "Parser::with_start_offset bases satisfy base + text.len() <= u32::MAX (the struct stores u32 by design)",
                "seeded sampling of operation histories: a clean batch is evidence, not proof",
            ],
        },
        "C14" => PropInfo {
            level: "exploration",
            rule: RULE_COMMON,
            real_vs_stub: parser_real,
            assumptions: vec![
                "the per-step oracle compares with konst's own free string functions (as the property states), so a defect inside a string function that the Parser faithfully delegates to is only seen by the split protocols (compared with std)",
                "the empty delimiter is excluded from the protocol loops (it legitimately yields \"\" forever) and kept in the per-step oracle",
                "seeded sampling of operation histories: a clean batch is evidence, not proof",
            ],
        },
        "C08" => PropInfo {
            level: "exploration",
            rule: RULE_COMMON,
            real_vs_stub: json!({
                "real_code": ["konst::slice::{iter, iter_copied, windows, chunks, rchunks, chunks_exact, rchunks_exact, array_chunks::<1..=4>} and every *Rev type", "konst::iter::into_iter!(slice) / into_iter!(&slice)", "copy(), rev(), next(), next_back(), as_slice(), remainder()"],
                "reference_models": ["core::slice::{Iter, Windows, Chunks, RChunks, ChunksExact, RChunksExact} (+ a reversed flag for Rev<_>, Copied by value)"],
                "stubs": [],
            }),
            assumptions: vec![
                "items are compared by address and length (fat pointer) for non-empty sub-slices, by length for empty ones and for zero-sized elements",
                "window/chunk sizes >= 1 (size 0 is a documented panic in konst and std)",
                "seeded sampling of operation histories over <= 4 forked handles: a clean batch is evidence, not proof",
            ],
        },
        "C09" => PropInfo {
            level: "exploration",
            rule: RULE_COMMON,
            real_vs_stub: json!({
                "real_code": ["konst::iter::into_iter!(a..b | a..=b | a.. | &(a..b) | &(a..=b)) for the 12 integer types and char", "RangeIter / RangeInclusiveIter / RangeFromIter and *Rev: next, next_back, copy, rev", "konst::iter::for_each! on range values and on forked mid-iteration iterators (plain, rev() adapter, inherent .rev())"],
                "reference_models": ["core::ops::{Range, RangeInclusive, RangeFrom} iterators"],
                "stubs": [],
            }),
            assumptions: vec![
                "a.. (RangeFrom) is never stepped to the point where the successor of MAX would be computed (std leaves it unspecified, konst debug_asserts)",
                "for_each! drains are cut off (as a violation) after 104 items: bounded progress",
                "u8/i8 bound pairs are also sampled uniformly; measured_sets.bound_pairs_8bit_seen reports how many of the 2 x 65 536 pairs this run visited (sampling, not an exhaustive sweep)",
            ],
        },
        "C07" => PropInfo {
            level: "exploration",
            rule: RULE_COMMON,
            real_vs_stub: json!({
                "real_code": ["konst::string::{chars, char_indices}, Chars/RChars/CharIndices/RCharIndices: next, next_back, copy, rev, as_str", "konst::chr::{encode_utf8, from_u32} on every scalar placed in a generated string"],
                "reference_models": ["core::str::{Chars, CharIndices} (+ reversed flag)", "char::encode_utf8"],
                "stubs": [],
            }),
            assumptions: vec![
                "DECIDES ONLY the iteration clause of C07 (every interleaving of front/back steps, as_str). The clause 'for every char ... for every u32' (complete enumeration of 0..=0x10FFFF / u32) is a pure-input statement and is NOT decided here; chr::encode_utf8/from_u32 merely run on the scalars the generator places (boundary scalars of each UTF-8 length + random ones)",
                "seeded sampling: a clean batch is evidence, not proof",
            ],
        },
        "C06" => PropInfo {
            level: "exploration",
            rule: RULE_COMMON,
            real_vs_stub: json!({
                "real_code": ["konst::string::{split, rsplit, split_terminator, rsplit_terminator} with &str and char delimiters incl. \"\": next, copy, remainder(), rev() of fresh split/rsplit"],
                "reference_models": ["str::split / rsplit / split_terminator piece sequences (byte ranges); rsplit_terminator = rsplit's sequence minus its last piece iff empty (documented mirrored rule); remainder computed from piece offsets"],
                "stubs": [],
            }),
            assumptions: vec![
                "rev() is compared on fresh iterators only (split(t,d).rev() == rsplit(t,d) and vice versa); mixed next/next_back on one Split has no std counterpart for str delimiters and is only executed for C01's invariants",
                "empty pieces/remainders are compared by emptiness only (konst returns a static \"\" once finished)",
                "seeded sampling: a clean batch is evidence, not proof",
            ],
        },
        "C01" => PropInfo {
            level: "exploration",
            rule: "Every world of the simulator (A slices x3 element types, B ranges x3 types, C chars, D splits incl. free-mode mixed next/next_back/rev histories, E parser, F by-value incl. the complete fault sweep) is run (a) natively with the C01 invariants after every step - each non-empty returned &[T]/&str/&[T;N] lies inside the datum it was derived from (address-range check), each &str re-validates with from_utf8 and sits on char boundaries of the datum, each yielded char is a scalar value, no token is dropped twice / no garbage is dropped / no dead slot is handed out - and (b) under Miri (UB detector) on a slice of the same plans plus the complete by-value fault sweep. Cases are drawn by the seeded planner as for the other properties; non-trivial/distinct as defined there (run fingerprints); Miri re-executions are counted in evaluations but add nothing to distinct_nontrivial.",
            real_vs_stub: json!({
                "real_code": ["everything listed for C06, C07, C08, C09, C13, C14, C15, C11 (all unsafe blocks behind: slice_from/up_to/split_at/as_chunks, __from_u8_subslice_of_str via str_from/str_up_to/split_at/strip_*/trim_*/find_skip/rfind_skip, string_to_char/from_u32_unchecked, chr::from_u32, encode_utf8().as_str(), uninit_array, array_assume_init, ArrayBuilder/ArrayConsumer, destructure! ptr::read/read_unaligned)"],
                "reference_models": ["address-range containment, core::str::from_utf8, is_char_boundary, drop ledger", "Miri (nightly) as UB oracle"],
                "stubs": [],
            }),
            assumptions: vec![
                "SCOPED: decides C01 only for the code the simulated histories execute. NOT decided: the input-space clause for functions no history calls with adversarial arguments (slice::get_*/ *_mut slicing functions with out-of-range indices, try_into_array, as_rchunks, ffi::cstr, ptr, maybe_uninit, manually_drop), and 'under compile-time evaluation' (Miri and CTFE share the interpreter core, but no const item is evaluated by this check)",
                "Miri runs a sample (hundreds to thousands of plans) because it is ~1e5 x slower than native; the by-value fault sweep runs completely under Miri",
            ],
        },
        "C15" | "C11" => PropInfo {
            level: if prop == "C15" { "fault_enumeration" } else { "exploration" },
            rule: RULE_BYVALUE,
            real_vs_stub: json!({
                "real_code": ["konst::array::ArrayConsumer<T,N> (new, empty, next, next_back, as_slice, as_mut_slice, clone, copy, Debug, assert_is_empty, Drop)", "konst::array::ArrayBuilder<T,N> (new, push, len, is_full, as_slice, as_mut_slice, clone, copy, Debug, build, infer_length_from_consumer, Drop)", "konst::array::{map_!, from_fn_!, map!, from_fn!} with closures that panic / break / continue / return at the k-th call", "konst::destructure! on 18 fixed shapes (tuples 1,2,3,6,16; arrays with prefix/rest/suffix/_/..; braced, tuple, generic, packed, ZST-field structs; path and type forms)"],
                "reference_models": ["VecDeque<id> per consumer, Vec<id> per builder/array, caller-held list, allowed drop-count range per token id (drop/move ledger)"],
                "instrumented_stand_ins": ["element types Tok (id, canary, id-derived payload; Clone/Drop record in a thread-local ledger and can be armed to panic at the k-th call), ZTok (zero-sized, counts only), u32 (copy())", "the closures handed to the macros"],
                "stubs": [],
            }),
            assumptions: vec![
                "on a path that does not run to completion (injected panic, early exit, misuse panic) tokens held inside konst at that instant may be dropped 0 or 1 times (the property only forbids leaks on completing paths); they must never be dropped twice; every token not held by konst at the fault must be exactly as the model says",
                "drop ORDER inside a container's Drop and panic MESSAGES are not compared",
                "`continue` inside map!/from_fn! closures is excluded (documented infinite loop)",
                "C11: the collect_const! clause is NOT decided (it expands to const items evaluated by rustc; nothing of it executes in a simulated run)",
                "histories are sampled; the fault sweep stage enumerates every (site, N, callback index k in 1..=N+1) cell completely for N in {0,1,2,3,5,8}",
            ],
        },
        _ => PropInfo { level: "exploration", rule: RULE_COMMON, real_vs_stub: json!({}), assumptions: vec![] },
    }
}

/// Non-batch stages: the Miri tier of C01.
pub fn extra_stages(prop: &str, tier: Tier, seed: u64, _scratch: &Path) -> ExtraResult {
    if prop != "C01" || std::env::var_os("KSIM_NO_MIRI").is_some() {
        return ExtraResult { report: json!({}), ..Default::default() };
    }
    use crate::miri::Segment;
    // Miri costs ~1-2 CPU-seconds per plan: quick runs ~450 plans (a third of the sweep cells,
    // chosen by the seed), thorough the complete sweep and 40x the sampled plans
    let quick = tier == Tier::Quick;
    let scale: u64 = if quick { 1 } else { 40 };
    let scale = std::env::var("KSIM_MIRI_SCALE").ok().and_then(|s| s.parse().ok()).unwrap_or(scale);
    let seg = |world: &'static str, n: u64| Segment { world, from: 0, to: n * scale, sweep: false, stride: 1, offset: 0, light: false };
    let sweep_len = <crate::worlds::byvalue::ByValueWorld as World>::sweep_len();
    let stride = if quick { 3 } else { 1 };
    let swseg = |world: &'static str, quick_stride: u64| {
        let n = with_world!(world, W => <W as World>::sweep_len());
        let st = if quick { quick_stride } else { 1 };
        Segment { world, from: 0, to: n, sweep: true, stride: st, offset: seed % st, light: false }
    };
    // the fault-free exhaustion cells and the destructure! cells sit at the end of the sweep list and always run under Miri
    let n_destr = <crate::worlds::byvalue::ByValueWorld as World>::sweep_names().iter().filter(|n| n.starts_with("destructure/") || n.starts_with("exhaustion/")).count() as u64;
    let segments = vec![
        Segment { world: "byvalue", from: 0, to: sweep_len - n_destr, sweep: true, stride, offset: seed % stride, light: quick },
        Segment { world: "byvalue", from: sweep_len - n_destr, to: sweep_len, sweep: true, stride: 1, offset: 0, light: quick },
        // exhaustion sweeps of the iterator worlds (a seed-chosen fraction in quick, all cells in thorough)
        swseg("parser", 12), swseg("slices_u8", 4), swseg("slices_odd", 12), swseg("slices_big", 12), swseg("chars", 2), swseg("splits", 4),
        swseg("ranges_char", 16), swseg("ranges_u8", 32), swseg("ranges_i128", 32),
        seg("byvalue", 64),
        seg("parser", 32),
        seg("splits", 32),
        seg("chars", 24),
        seg("slices_u8", 24),
        seg("slices_zst", 12),
        seg("slices_big", 12),
        seg("slices_odd", 12),
        seg("ranges_char", 12),
        seg("ranges_u8", 8),
        seg("ranges_i128", 4),
    ];
    let jobs = std::thread::available_parallelism().map(|n| n.get()).unwrap_or(4);
    crate::miri::run_miri_tier(prop, seed, segments, jobs)
}

/// Signature of an OPEN known finding (known_findings.json): a `;`-separated list of `key=value`
/// conditions over the minimised violation, all of which must hold:
///   world=<world name>            class=<violation class>
///   case_contains=<substring of the minimised case's JSON>   (may be repeated)
///   detail_contains=<substring of the violation detail>
/// A violation of the same property that does not match every condition is still reported.
/// (No finding is open at present; both defects found were repaired.)
pub fn finding_matches(signature: &str, world: &str, case: &Value, v: &Violation) -> bool {
    if signature.trim().is_empty() {
        return false;
    }
    let case_json = serde_json::to_string(case).unwrap_or_default();
    signature.split(';').map(|c| c.trim()).filter(|c| !c.is_empty()).all(|cond| match cond.split_once('=') {
        Some(("world", w)) => world == w,
        Some(("class", c)) => v.class == c,
        Some(("case_contains", x)) => case_json.contains(x),
        Some(("detail_contains", x)) => v.detail.contains(x),
        _ => false,
    })
}
