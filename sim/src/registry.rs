//! Which worlds serve which property, with how many runs; per-property descriptive metadata.

use crate::kernel::*;
use crate::runner::ExtraResult;
use serde_json::{json, Value};
use std::path::Path;

pub struct Stage {
    pub world: &'static str,
    pub runs: u64,
}

/// Dispatch on the world name to its type.
macro_rules! with_world {
    ($name:expr, $W:ident => $body:expr) => {
        match $name {
            "parser" => {
                type $W = crate::worlds::parser::ParserWorld;
                $body
            }
            "slices_u8" => {
                type $W = crate::iterworld::IterWorld<crate::worlds::slices::SliceFam<u8>>;
                $body
            }
            "slices_zst" => {
                type $W = crate::iterworld::IterWorld<crate::worlds::slices::SliceFam<()>>;
                $body
            }
            "slices_big" => {
                type $W = crate::iterworld::IterWorld<crate::worlds::slices::SliceFam<crate::worlds::slices::Big>>;
                $body
            }
            other => panic!("unknown world {other}"),
        }
    };
}
pub(crate) use with_world;

fn runs_override(default: u64) -> u64 {
    std::env::var("KSIM_RUNS").ok().and_then(|s| s.parse().ok()).unwrap_or(default)
}

pub fn stages_for(prop: &str, tier: Tier) -> Option<Vec<Stage>> {
    let q = tier == Tier::Quick;
    let st = |world: &'static str, quick: u64, thorough: u64| Stage { world, runs: runs_override(if q { quick } else { thorough }) };
    Some(match prop {
        "C13" => vec![st("parser", 1_000_000, 20_000_000)],
        "C14" => vec![st("parser", 1_000_000, 20_000_000)],
        "C08" => vec![st("slices_u8", 1_200_000, 24_000_000), st("slices_zst", 400_000, 8_000_000), st("slices_big", 400_000, 8_000_000)],
        _ => return None,
    })
}

pub struct PropInfo {
    pub level: &'static str,
    pub rule: &'static str,
    pub real_vs_stub: Value,
    pub assumptions: Vec<&'static str>,
}

const RULE_COMMON: &str = "Cases are (world setup, operation plan) pairs drawn by the seeded planner from VERIF_SEED (run seed = mix(VERIF_SEED, world/property label, run index); xoshiro256**), the plan being generated from the seed and the reference model only. A run is NON-TRIVIAL when it has >= 3 state-changing steps and at least one of: a change of working end (front/back) on a handle, a fork (copy) of a handle, a failing operation (Err/None/modelled panic), a fired fault. Runs are DISTINCT when the 64-bit fingerprint of their whole sequence of (operation kind, abstract pre-state, outcome kind) differs; distinct_nontrivial is the size of the union of those fingerprint sets over all worker processes (each worker's set is capped at 2^22 entries, so the count is conservative).";

pub fn prop_info(prop: &str) -> PropInfo {
    let parser_real = json!({
        "real_code": ["konst::Parser (every public method)", "konst::parsing::ParseError", "konst::parser_method! (8 fixed forms)", "konst::string::{trim*,strip_*,find*,rfind*,split_once,rsplit_once,split_at}", "konst::primitive::parse_*"],
        "reference_models": ["offset arithmetic over the original text", "std str::split/rsplit (protocol sub-scenarios)", "modelled one-shot split flag"],
        "stubs": [],
    });
    match prop {
        "C13" => PropInfo {
            level: "exploration",
            rule: RULE_COMMON,
            real_vs_stub: parser_real,
            assumptions: vec![
                "Parser::with_start_offset bases satisfy base + text.len() <= u32::MAX (the struct stores u32 by design)",
                "seeded sampling of operation histories: a clean batch is evidence, not proof",
            ],
        },
        "C14" => PropInfo {
            level: "exploration",
            rule: RULE_COMMON,
            real_vs_stub: parser_real,
            assumptions: vec![
                "the per-step oracle compares with konst's own free string functions (as the property states), so a defect inside a string function that the Parser faithfully delegates to is only seen by the split protocols (compared with std)",
                "the empty delimiter is excluded from the protocol loops (it legitimately yields \"\" forever) and kept in the per-step oracle",
                "seeded sampling of operation histories: a clean batch is evidence, not proof",
            ],
        },
        _ => PropInfo { level: "exploration", rule: RULE_COMMON, real_vs_stub: json!({}), assumptions: vec![] },
    }
}

/// Non-batch stages (fault sweep, Miri tier); none yet for the parser world.
pub fn extra_stages(_prop: &str, _tier: Tier, _seed: u64, _scratch: &Path) -> ExtraResult {
    ExtraResult { report: json!({}), ..Default::default() }
}

/// Predicates naming open known findings (see known_findings.json). None are open.
pub fn finding_matches(_signature: &str, _world: &str, _case: &Value, _v: &Violation) -> bool {
    false
}
