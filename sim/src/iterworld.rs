//! Generic driver for the iterator worlds (A slices, B ranges, C chars, D splits).
//!
//! A family pairs each konst iterator with its std reference model. The driver owns up to
//! `HANDLE_CAP` live handles onto one datum, interprets the plan (next / next_back / copy /
//! rev / observe / drop), and compares konst with the model after every step.

use crate::kernel::*;
use crate::prng::{mix, Rng};
use serde::{de::DeserializeOwned, Deserialize, Serialize};
use std::fmt::Debug;
use std::marker::PhantomData;

pub const HANDLE_CAP: usize = 4;

#[derive(Serialize, Deserialize, Clone, Debug, PartialEq)]
#[serde(tag = "op")]
pub enum IOp {
    Next { h: usize },
    NextBack { h: usize },
    Copy { h: usize },
    Rev { h: usize },
    Observe { h: usize },
    Drop { h: usize },
}

impl IOp {
    fn h(&self) -> usize {
        match self {
            IOp::Next { h } | IOp::NextBack { h } | IOp::Copy { h } | IOp::Rev { h } | IOp::Observe { h } | IOp::Drop { h } => *h,
        }
    }
    fn id(&self) -> u64 {
        match self {
            IOp::Next { .. } => 1,
            IOp::NextBack { .. } => 2,
            IOp::Copy { .. } => 3,
            IOp::Rev { .. } => 4,
            IOp::Observe { .. } => 5,
            IOp::Drop { .. } => 6,
        }
    }
}

#[derive(Serialize, Deserialize, Clone, Debug)]
pub struct ICase<S> {
    pub setup: S,
    pub plan: Vec<IOp>,
}

pub trait Fam: 'static {
    const WORLD: &'static str;
    /// the property this family decides (besides C01's containment/UTF-8 invariants)
    const PROP: &'static str;
    type Setup: Serialize + DeserializeOwned + Clone + Debug;
    type Datum;
    type K<'a>;
    type M<'a>: Clone;
    type Item: PartialEq + Debug;

    fn gen_setup(rng: &mut Rng, tier: Tier, prop: &str) -> Self::Setup;
    /// free mode (C01 only): no model comparison, only the containment/UTF-8 invariants
    fn m_is_free(_m: &Self::M<'_>) -> bool {
        false
    }
    fn shrink_setup(s: &Self::Setup) -> Vec<Self::Setup>;
    fn datum(s: &Self::Setup) -> Self::Datum;
    fn m_new<'a>(s: &Self::Setup, d: &'a Self::Datum) -> Self::M<'a>;
    /// called inside a panic guard
    fn k_new<'a>(s: &Self::Setup, d: &'a Self::Datum) -> Self::K<'a>;
    fn m_next<'a>(m: &mut Self::M<'a>, d: &'a Self::Datum) -> Option<Self::Item>;
    fn m_next_back<'a>(m: &mut Self::M<'a>, d: &'a Self::Datum) -> Option<Self::Item>;
    fn m_can_back(m: &Self::M<'_>) -> bool;
    fn m_can_rev(m: &Self::M<'_>) -> bool;
    fn m_rev<'a>(m: Self::M<'a>, d: &'a Self::Datum) -> Self::M<'a>;
    fn m_observe<'a>(m: &Self::M<'a>, d: &'a Self::Datum) -> Option<Self::Item>;
    /// number of further successful steps (from either end)
    fn m_remaining(m: &Self::M<'_>) -> usize;
    /// false when stepping past `m_remaining` is not well-defined (RangeFrom at MAX)
    fn m_exhaustible(_m: &Self::M<'_>) -> bool {
        true
    }
    /// abstract state id for coverage fingerprints (kind, direction, flags; not data values)
    fn m_state_id(m: &Self::M<'_>) -> u64;
    fn k_next<'a>(k: &Self::K<'a>, d: &'a Self::Datum) -> Option<(Self::Item, Self::K<'a>)>;
    fn k_next_back<'a>(k: &Self::K<'a>, d: &'a Self::Datum) -> Option<(Self::Item, Self::K<'a>)>;
    fn k_copy<'a>(k: &Self::K<'a>, d: &'a Self::Datum) -> Self::K<'a>;
    fn k_rev<'a>(k: Self::K<'a>, d: &'a Self::Datum) -> Self::K<'a>;
    fn k_observe<'a>(k: &Self::K<'a>, d: &'a Self::Datum) -> Option<Self::Item>;
    /// C01: Some(description) when the item is not inside the datum / not valid UTF-8 / not on
    /// char boundaries / not a valid scalar value.
    fn escaped(i: &Self::Item) -> Option<String>;
    /// family-specific reach probes, decided from the model only
    fn probes(_s: &Self::Setup, _m: &Self::M<'_>, _op: &IOp, _cov: &mut Cov) {}
    fn required_probes() -> &'static [&'static str] {
        &[]
    }
    /// extra scenario run once per case inside the executor (e.g. size-0 misuse, for_each! drains)
    fn extra<'a>(_s: &Self::Setup, _d: &'a Self::Datum, _ctx: &mut Ctx, _step: usize) -> Res {
        Ok(())
    }
    /// small setups for the exhaustion sweep (every setup x every step pattern, completely
    /// enumerated; the Miri tier runs these because its random sample is necessarily thin)
    fn sweep_setups() -> Vec<Self::Setup> {
        Vec::new()
    }
    /// extra check on a fork: drain it through a macro entry point (ranges: for_each!)
    fn fork_extra<'a>(_k: &Self::K<'a>, _m: &Self::M<'a>, _d: &'a Self::Datum, _ctx: &mut Ctx, _step: usize) -> Res {
        Ok(())
    }
}

pub struct IterWorld<F: Fam>(PhantomData<F>);

/// Steps the planner's models; returns false if the op is not applicable (must not be planned).
fn apply<'a, F: Fam>(models: &mut Vec<Option<F::M<'a>>>, op: &IOp, d: &'a F::Datum) -> bool {
    let h = op.h();
    let live = models.iter().filter(|m| m.is_some()).count();
    let nh = models.len();
    let Some(Some(m)) = models.get_mut(h) else { return false };
    match op {
        IOp::Next { .. } => {
            if !F::m_exhaustible(m) && F::m_remaining(m) == 0 {
                return false;
            }
            let _ = F::m_next(m, d);
            true
        }
        IOp::NextBack { .. } => {
            if !F::m_can_back(m) {
                return false;
            }
            let _ = F::m_next_back(m, d);
            true
        }
        IOp::Copy { .. } => {
            if nh >= HANDLE_CAP {
                return false;
            }
            let c = m.clone();
            models.push(Some(c));
            true
        }
        IOp::Rev { .. } => {
            if !F::m_can_rev(m) {
                return false;
            }
            let mm = models[h].take().unwrap();
            models[h] = Some(F::m_rev(mm, d));
            true
        }
        IOp::Observe { .. } => true,
        IOp::Drop { .. } => {
            if live <= 1 {
                return false;
            }
            models[h] = None;
            true
        }
    }
}

impl<F: Fam> World for IterWorld<F> {
    type Case = ICase<F::Setup>;
    const NAME: &'static str = F::WORLD;

    fn generate(rng: &mut Rng, cfg: &GenCfg) -> Self::Case {
        let setup = F::gen_setup(rng, cfg.tier, &cfg.prop);
        let d = F::datum(&setup);
        let d: &F::Datum = &d;
        let thorough = cfg.tier == Tier::Thorough;
        let mut models: Vec<Option<F::M<'_>>> = vec![Some(F::m_new(&setup, d))];

        // swarm knobs
        let w_next = *rng.pick(&[2u32, 6, 10]);
        let w_back = *rng.pick(&[0u32, 1, 6, 10]);
        let w_copy = *rng.pick(&[0u32, 1, 2]);
        let w_rev = *rng.pick(&[0u32, 1, 2]);
        let w_obs = *rng.pick(&[0u32, 2, 4]);
        let w_drop = *rng.pick(&[0u32, 0, 1]);
        let weights = [w_next, w_back, w_copy, w_rev, w_obs, w_drop];
        let max_steps = if thorough { 256 } else { 64 };
        let steps = rng.range(0, max_steps);
        let steps = if rng.chance(1, 2) { steps.min(16) } else { steps };
        let mut plan: Vec<IOp> = Vec::with_capacity(steps + 16);

        for _ in 0..steps {
            let live: Vec<usize> = models.iter().enumerate().filter(|(_, m)| m.is_some()).map(|(i, _)| i).collect();
            if live.is_empty() {
                break;
            }
            let h = *rng.pick(&live);
            let op = match rng.weighted(&weights) {
                0 => IOp::Next { h },
                1 => IOp::NextBack { h },
                2 => IOp::Copy { h },
                3 => IOp::Rev { h },
                4 => IOp::Observe { h },
                _ => IOp::Drop { h },
            };
            if apply::<F>(&mut models, &op, d) {
                plan.push(op);
            }
        }
        // drain every live handle to exhaustion (+1 step to see the end), seeded interleaving
        let mut budget: Vec<(usize, usize)> = Vec::new();
        for (h, m) in models.iter().enumerate() {
            if let Some(m) = m {
                let rem = F::m_remaining(m);
                let n = if F::m_exhaustible(m) { rem.min(if thorough { 400 } else { 80 }) + 1 } else { rem.min(6) };
                budget.push((h, n));
            }
        }
        while !budget.is_empty() {
            let i = rng.below(budget.len() as u64) as usize;
            let (h, n) = budget[i];
            if n == 0 {
                budget.swap_remove(i);
                continue;
            }
            budget[i].1 -= 1;
            let back = models[h].as_ref().map(|m| F::m_can_back(m)).unwrap_or(false) && rng.chance(w_back as u64, (w_back + w_next) as u64);
            let op = if back { IOp::NextBack { h } } else { IOp::Next { h } };
            if apply::<F>(&mut models, &op, d) {
                plan.push(op);
            }
            if rng.chance(1, 6) {
                plan.push(IOp::Observe { h });
            }
        }
        drop(models);
        ICase { setup, plan }
    }

    fn execute(case: &Self::Case, ctx: &mut Ctx) -> Res {
        exec::<F>(case, ctx)
    }

    fn shrink(case: &Self::Case) -> Vec<Self::Case> {
        let mut out = Vec::new();
        for plan in shrink_list(&case.plan) {
            out.push(ICase { setup: case.setup.clone(), plan });
        }
        for setup in F::shrink_setup(&case.setup) {
            out.push(ICase { setup, plan: case.plan.clone() });
        }
        // simpler ops
        for (i, op) in case.plan.iter().enumerate() {
            if let IOp::NextBack { h } = op {
                let mut plan = case.plan.clone();
                plan[i] = IOp::Next { h: *h };
                out.push(ICase { setup: case.setup.clone(), plan });
            }
        }
        out
    }

    fn plan_len(case: &Self::Case) -> usize {
        case.plan.len()
    }

    fn required_probes(prop: &str) -> &'static [&'static str] {
        if prop == F::PROP {
            F::required_probes()
        } else {
            &[]
        }
    }
    fn sweep_len() -> u64 {
        (F::sweep_setups().len() * SWEEP_PATTERNS) as u64
    }
    fn sweep_names() -> Vec<String> {
        let setups = F::sweep_setups();
        let mut v = Vec::new();
        for s in &setups {
            for p in 0..SWEEP_PATTERNS {
                v.push(format!("{}/{:?}/pattern={}", F::WORLD, s, SWEEP_PATTERN_NAMES[p]));
            }
        }
        v
    }
    fn sweep_some(indices: &[u64]) -> Vec<(u64, Self::Case)> {
        let setups = F::sweep_setups();
        indices
            .iter()
            .filter_map(|i| {
                let si = *i as usize / SWEEP_PATTERNS;
                setups.get(si).map(|s| (*i, sweep_plan::<F>(s.clone(), *i as usize % SWEEP_PATTERNS)))
            })
            .collect()
    }
    fn sweep_case(i: u64) -> Option<Self::Case> {
        let setups = F::sweep_setups();
        let si = i as usize / SWEEP_PATTERNS;
        let pat = i as usize % SWEEP_PATTERNS;
        let setup = setups.get(si)?.clone();
        Some(sweep_plan::<F>(setup, pat))
    }
}

fn sweep_plan<F: Fam>(setup: F::Setup, pat: usize) -> ICase<F::Setup> {
    {
        let d = F::datum(&setup);
        let m = F::m_new(&setup, &d);
        let r = F::m_remaining(&m).min(40);
        let r = if F::m_exhaustible(&m) { r + 2 } else { r.min(6) };
        let back_ok = F::m_can_back(&m);
        let rev_ok = F::m_can_rev(&m);
        let h = 0;
        let mut plan: Vec<IOp> = vec![IOp::Observe { h }];
        let step = |front: bool| if front || !back_ok { IOp::Next { h } } else { IOp::NextBack { h } };
        match pat {
            0 => plan.extend((0..r).map(|_| step(true))),
            1 => plan.extend((0..r).map(|_| step(false))),
            2 => plan.extend((0..r).map(|k| step(k % 2 == 0))),
            3 => {
                plan.extend((0..r / 2).map(|_| step(true)));
                plan.push(IOp::Observe { h });
                plan.extend((0..r).map(|_| step(false)));
            }
            4 => {
                plan.extend((0..r / 2).map(|_| step(false)));
                plan.push(IOp::Copy { h });
                plan.extend((0..r).map(|_| step(true)));
                plan.extend((0..r).map(|k| if k % 2 == 0 || !back_ok { IOp::Next { h: 1 } } else { IOp::NextBack { h: 1 } }));
            }
            _ => {
                if rev_ok {
                    plan.push(IOp::Rev { h });
                }
                plan.extend((0..r).map(|k| step(k % 3 != 2)));
                if rev_ok {
                    plan.push(IOp::Rev { h });
                }
                plan.push(IOp::Observe { h });
                plan.push(step(true));
                plan.push(step(false));
            }
        }
        plan.push(IOp::Observe { h });
        drop(m);
        ICase { setup, plan }
    }
}

pub const SWEEP_PATTERNS: usize = 6;
pub const SWEEP_PATTERN_NAMES: [&str; 6] = ["front-to-exhaustion+2", "back-to-exhaustion+2", "alternate", "front-half-then-back", "back-half-fork-then-both", "reversed-mixed"];

fn exec<F: Fam>(case: &ICase<F::Setup>, ctx: &mut Ctx) -> Res {
    // every violation detail also names the setup (text / slice shape / range bounds)
    exec_inner::<F>(case, ctx).map_err(|mut v| {
        v.detail = format!("{}; setup {:?}", v.detail, case.setup);
        v
    })
}

fn exec_inner<F: Fam>(case: &ICase<F::Setup>, ctx: &mut Ctx) -> Res {
    let d = F::datum(&case.setup);
    let d: &F::Datum = &d;
    let k0 = match guard(|| F::k_new(&case.setup, d)) {
        Ok(k) => k,
        Err(m) => return Err(viol("unexpected-panic", 0, format!("constructor panicked: {m}; setup {:?}", case.setup))),
    };
    let mut hs: Vec<Option<(F::K<'_>, F::M<'_>)>> = vec![Some((k0, F::m_new(&case.setup, d)))];
    let mut last_front: Vec<Option<bool>> = vec![None];
    let prop_on = ctx.wants(F::PROP);
    let c01 = ctx.wants("C01");

    F::extra(&case.setup, d, ctx, 0)?;

    for (i, op) in case.plan.iter().enumerate() {
        let h = op.h();
        let live = hs.iter().filter(|x| x.is_some()).count();
        let nh = hs.len();
        let Some(Some((k, m))) = hs.get_mut(h) else { continue };
        let sid = F::m_state_id(m);
        let rem = F::m_remaining(m) as u64;
        match op {
            IOp::Next { .. } | IOp::NextBack { .. } => {
                let front = matches!(op, IOp::Next { .. });
                if front {
                    if !F::m_exhaustible(m) && rem == 0 {
                        continue;
                    }
                } else if !F::m_can_back(m) {
                    continue;
                }
                F::probes(&case.setup, m, op, &mut ctx.cov);
                let exp = if front { F::m_next(m, d) } else { F::m_next_back(m, d) };
                let got = match guard(|| if front { F::k_next(k, d) } else { F::k_next_back(k, d) }) {
                    Ok(g) => g,
                    Err(msg) => {
                        return Err(viol("unexpected-panic", i, format!("{op:?} panicked: {msg}; model expected {:?}", exp)));
                    }
                };
                let some = got.is_some();
                if F::m_is_free(m) {
                    // free mode: konst's answer is only subject to the C01 invariants
                    if let Some((g, nk)) = got {
                        if c01 {
                            if let Some(why) = F::escaped(&g) {
                                return Err(viol("item-escapes-datum", i, format!("{op:?} yielded {:?}: {why}", g)));
                            }
                        }
                        *k = nk;
                    }
                    ctx.cov.step(mix(mix(mix(sid, rem), op.id()), some as u64), some);
                    continue;
                }
                match (exp, got) {
                    (Some(e), Some((g, nk))) => {
                        if c01 {
                            if let Some(why) = F::escaped(&g) {
                                return Err(viol("item-escapes-datum", i, format!("{op:?} yielded {:?}: {why}", g)));
                            }
                        }
                        if prop_on && g != e {
                            return Err(viol("item-mismatch", i, format!("{op:?} yielded {:?}, the std iterator yields {:?}", g, e)));
                        }
                        *k = nk;
                    }
                    (None, None) => {
                        ctx.cov.flag(F_FAILOP);
                    }
                    (Some(e), None) => {
                        if prop_on {
                            return Err(viol("ended-early", i, format!("{op:?} returned None, the std iterator yields {:?}", e)));
                        }
                    }
                    (None, Some((g, nk))) => {
                        if c01 {
                            if let Some(why) = F::escaped(&g) {
                                return Err(viol("item-escapes-datum", i, format!("{op:?} yielded {:?}: {why}", g)));
                            }
                        }
                        if prop_on {
                            return Err(viol("ended-late", i, format!("{op:?} yielded {:?}, the std iterator is exhausted", g)));
                        }
                        *k = nk;
                    }
                }
                if let Some(lf) = last_front[h] {
                    if lf != front && some {
                        ctx.cov.flag(F_DIRCHANGE);
                    }
                }
                if some {
                    last_front[h] = Some(front);
                }
                ctx.cov.step(mix(mix(mix(sid, rem), op.id()), some as u64), some);
                ctx.log(|| format!("{i}:{op:?}:{some}:{rem}"));
            }
            IOp::Copy { .. } => {
                if nh >= HANDLE_CAP {
                    continue;
                }
                let nk = match guard(|| F::k_copy(k, d)) {
                    Ok(x) => x,
                    Err(msg) => return Err(viol("unexpected-panic", i, format!("copy panicked: {msg}"))),
                };
                let nm = m.clone();
                F::fork_extra(&nk, &nm, d, ctx, i)?;
                hs.push(Some((nk, nm)));
                last_front.push(last_front[h]);
                ctx.cov.flag(F_FORK);
                ctx.cov.step(mix(mix(sid, rem), op.id()), false);
            }
            IOp::Rev { .. } => {
                if !F::m_can_rev(m) {
                    continue;
                }
                let (k, m) = hs[h].take().unwrap();
                let nk = match guard(|| F::k_rev(k, d)) {
                    Ok(x) => x,
                    Err(msg) => return Err(viol("unexpected-panic", i, format!("rev panicked: {msg}"))),
                };
                hs[h] = Some((nk, F::m_rev(m, d)));
                last_front[h] = last_front[h].map(|f| !f);
                ctx.cov.step(mix(mix(sid, rem), op.id()), false);
            }
            IOp::Observe { .. } => {
                let e = F::m_observe(m, d);
                let g = match guard(|| F::k_observe(k, d)) {
                    Ok(x) => x,
                    Err(msg) => return Err(viol("unexpected-panic", i, format!("observer panicked: {msg}"))),
                };
                if let Some(g) = &g {
                    if c01 {
                        if let Some(why) = F::escaped(g) {
                            return Err(viol("observed-escapes-datum", i, format!("observer returned {:?}: {why}", g)));
                        }
                    }
                }
                if prop_on && !F::m_is_free(m) && g != e {
                    return Err(viol("remainder-mismatch", i, format!("observer returned {:?}, the std iterator reports {:?}", g, e)));
                }
                ctx.cov.step(mix(mix(sid, rem), op.id()), false);
            }
            IOp::Drop { .. } => {
                if live <= 1 {
                    continue;
                }
                hs[h] = None;
                ctx.cov.step(mix(mix(sid, rem), op.id()), false);
            }
        }
    }
    Ok(())
}
