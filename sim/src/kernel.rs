//! Kernel shared by every world: violations, coverage accounting, the panic guard,
//! the `World` trait, and the generic minimiser.

use crate::prng::{mix, Rng};
use serde::{de::DeserializeOwned, Deserialize, Serialize};
use std::collections::{BTreeMap, HashSet};
use std::panic::{catch_unwind, AssertUnwindSafe};

#[derive(Copy, Clone, Debug, PartialEq, Eq, Serialize, Deserialize)]
#[serde(rename_all = "lowercase")]
pub enum Tier {
    Quick,
    Thorough,
}

impl Tier {
    pub fn as_str(self) -> &'static str {
        match self {
            Tier::Quick => "quick",
            Tier::Thorough => "thorough",
        }
    }
}

#[derive(Clone, Debug, Serialize, Deserialize, PartialEq, Eq)]
pub struct Violation {
    /// violation class: stable short identifier, the minimiser preserves it
    pub class: String,
    /// index into the plan of the step at which it was detected (plan.len() = teardown)
    pub step: usize,
    pub detail: String,
}

pub type Res<T = ()> = Result<T, Violation>;

// ------------------------------------------------------------------------------------------
// Run flags for the "non-trivial run" rule
pub const F_DIRCHANGE: u32 = 1;
pub const F_FORK: u32 = 2;
pub const F_FAILOP: u32 = 4;
pub const F_FAULT: u32 = 8;

/// Coverage accounting. Never draws from the PRNG and never reads a clock.
#[derive(Default)]
pub struct Cov {
    pub runs: u64,
    pub steps: u64,
    pub fail_ops: u64,
    pub states: HashSet<u64>,
    pub run_fps: HashSet<u64>,
    pub probes: BTreeMap<&'static str, u64>,
    pub faults: BTreeMap<&'static str, u64>,
    pub sets: BTreeMap<&'static str, HashSet<u64>>,
    pub nontrivial_runs: u64,
    pub trace_hash: u64,
    pub last_run_nontrivial: bool,
    // per-run scratch
    run_hash: u64,
    run_changes: u32,
    run_flags: u32,
    run_steps: u32,
}

pub const RUN_FP_CAP: usize = 1 << 22;

impl Cov {
    pub fn begin_run(&mut self) {
        self.run_hash = 0x1234_5678_9abc_def1;
        self.run_changes = 0;
        self.run_flags = 0;
        self.run_steps = 0;
    }
    /// one executed operation: `fp` = fingerprint of (world kind, abstract state, op kind)
    #[inline]
    pub fn step(&mut self, fp: u64, changed: bool) {
        self.steps += 1;
        self.run_steps += 1;
        self.states.insert(fp);
        self.run_hash = mix(self.run_hash, fp);
        if changed {
            self.run_changes += 1;
        }
    }
    #[inline]
    pub fn flag(&mut self, f: u32) {
        self.run_flags |= f;
        if f & F_FAILOP != 0 {
            self.fail_ops += 1;
        }
    }
    #[inline]
    pub fn probe(&mut self, name: &'static str) {
        *self.probes.entry(name).or_insert(0) += 1;
    }
    #[inline]
    pub fn fault(&mut self, name: &'static str) {
        *self.faults.entry(name).or_insert(0) += 1;
        self.run_flags |= F_FAULT;
    }
    #[inline]
    pub fn set_insert(&mut self, name: &'static str, v: u64) {
        self.sets.entry(name).or_default().insert(v);
    }
    /// Rule for a non-trivial run: >= 3 state-changing steps and at least one of
    /// direction change / fork / failing operation / fired fault.
    pub fn end_run(&mut self) -> bool {
        self.runs += 1;
        let nontrivial = self.run_changes >= 3 && self.run_flags != 0;
        if nontrivial {
            self.nontrivial_runs += 1;
            if self.run_fps.len() < RUN_FP_CAP {
                self.run_fps.insert(self.run_hash);
            }
        }
        self.last_run_nontrivial = nontrivial;
        nontrivial
    }
}

/// Execution context handed to a world.
pub struct Ctx {
    /// property whose oracle decides (violations of other properties' oracles are not raised)
    pub prop: String,
    pub cov: Cov,
    /// event log of the current run (only when enabled: determinism self-check, samples)
    pub trace: Option<Vec<String>>,
    pub tier: Tier,
}

impl Ctx {
    pub fn new(prop: &str, tier: Tier) -> Self {
        Ctx {
            prop: prop.to_string(),
            cov: Cov::default(),
            trace: None,
            tier,
        }
    }
    /// Is `p` (one of the properties an oracle serves) the property being decided?
    #[inline]
    pub fn wants(&self, p: &str) -> bool {
        self.prop == p
    }
    #[inline]
    pub fn wants_any(&self, ps: &[&str]) -> bool {
        ps.iter().any(|p| self.prop == *p)
    }
    #[inline]
    pub fn log(&mut self, f: impl FnOnce() -> String) {
        if let Some(t) = self.trace.as_mut() {
            t.push(f());
        }
    }
}

pub fn viol(class: &str, step: usize, detail: String) -> Violation {
    // a broken konst can hand back a `&str` that is not valid UTF-8; formatting it smuggles the
    // invalid bytes into this String. Replace them, so that reports and replay files stay valid.
    let detail = String::from_utf8_lossy(detail.as_bytes()).into_owned();
    Violation {
        class: class.to_string(),
        step,
        detail,
    }
}

// ------------------------------------------------------------------------------------------
// Panic guard: konst calls are wrapped so that an unwinding panic out of konst is observed
// (expected for modelled misuse / injected faults, a violation otherwise) instead of killing
// the run. A panic *outside* a guard is a harness bug and is reported as exit code 2.

pub fn install_quiet_panic_hook() {
    std::panic::set_hook(Box::new(|info| {
        // Injected faults and modelled misuse panics are expected and numerous; stay silent
        // unless asked.
        if std::env::var_os("KSIM_SHOW_PANICS").is_some() {
            eprintln!("[panic] {info}");
        }
    }));
}

pub fn panic_message(p: &(dyn std::any::Any + Send)) -> String {
    if let Some(s) = p.downcast_ref::<&'static str>() {
        s.to_string()
    } else if let Some(s) = p.downcast_ref::<String>() {
        s.clone()
    } else {
        "<non-string panic payload>".to_string()
    }
}

/// Runs `f` (a call into konst); Err(message) if it unwound.
#[inline]
pub fn guard<T>(f: impl FnOnce() -> T) -> Result<T, String> {
    catch_unwind(AssertUnwindSafe(f)).map_err(|p| panic_message(&*p))
}

// ------------------------------------------------------------------------------------------

pub struct GenCfg {
    pub tier: Tier,
    pub prop: String,
}

pub trait World: 'static {
    type Case: Serialize + DeserializeOwned + Clone;
    const NAME: &'static str;
    /// The planner: a pure function of the PRNG stream (and the reference model it steps);
    /// it never looks at anything konst returns.
    fn generate(rng: &mut Rng, cfg: &GenCfg) -> Self::Case;
    /// The executor: performs the plan on real konst objects, comparing after every step.
    fn execute(case: &Self::Case, ctx: &mut Ctx) -> Res;
    /// Simpler variants of `case`, most aggressive first.
    fn shrink(case: &Self::Case) -> Vec<Self::Case>;
    fn plan_len(case: &Self::Case) -> usize;
    /// Probes that must be non-zero on a full quick batch for property `prop`
    /// (a probe stuck at zero is a harness error, exit 2: the workload must change).
    fn required_probes(_prop: &str) -> &'static [&'static str] {
        &[]
    }
    /// Fault sweep (level fault_enumeration): a finite, completely enumerated list of cases
    /// (every fault site x size x callback index), executed like any other case.
    fn sweep_len() -> u64 {
        0
    }
    fn sweep_case(_i: u64) -> Option<Self::Case> {
        None
    }
    /// the sweep cases with the given indices (batch loops call this once; worlds override it
    /// so that the shared part of the enumeration is built once, not once per cell)
    fn sweep_some(indices: &[u64]) -> Vec<(u64, Self::Case)> {
        indices.iter().filter_map(|i| Self::sweep_case(*i).map(|c| (*i, c))).collect()
    }
    /// cases that cost seconds each under the interpreter (skipped by the quick Miri tier)
    fn case_is_heavy(_case: &Self::Case) -> bool {
        false
    }
    /// names of the sweep cells (site / size / callback index), for the evidence file
    fn sweep_names() -> Vec<String> {
        Vec::new()
    }
}

/// Sub-lists of a plan for delta debugging: drop chunks of decreasing size.
pub fn shrink_list<T: Clone>(ops: &[T]) -> Vec<Vec<T>> {
    let n = ops.len();
    let mut out = Vec::new();
    if n == 0 {
        return out;
    }
    let mut chunk = n / 2;
    while chunk >= 1 {
        let mut start = 0;
        while start < n {
            let end = (start + chunk).min(n);
            let mut v = Vec::with_capacity(n - (end - start));
            v.extend_from_slice(&ops[..start]);
            v.extend_from_slice(&ops[end..]);
            out.push(v);
            start += chunk;
        }
        if chunk == 1 {
            break;
        }
        chunk /= 2;
    }
    out
}

/// Executes one case with a fresh run scope; harness panics propagate.
pub fn run_case<W: World>(case: &W::Case, ctx: &mut Ctx) -> Res {
    ctx.cov.begin_run();
    let r = W::execute(case, ctx);
    ctx.cov.end_run();
    r
}

pub struct MinimiseOutcome<C> {
    pub case: C,
    pub violation: Violation,
    pub executions: usize,
}

/// Greedy minimisation: keep any simpler candidate that still shows the same violation class.
/// `exec` abstracts over in-process / sub-process execution.
pub fn minimise<W: World>(
    case: &W::Case,
    violation: &Violation,
    mut exec: impl FnMut(&W::Case) -> Option<Violation>,
    max_exec: usize,
) -> MinimiseOutcome<W::Case> {
    let mut cur = case.clone();
    let mut cur_v = violation.clone();
    let mut executions = 0usize;
    'outer: loop {
        let cands = W::shrink(&cur);
        for cand in cands {
            if executions >= max_exec {
                break 'outer;
            }
            executions += 1;
            if let Some(v) = exec(&cand) {
                if v.class == cur_v.class {
                    cur = cand;
                    cur_v = v;
                    continue 'outer;
                }
            }
        }
        break;
    }
    MinimiseOutcome {
        case: cur,
        violation: cur_v,
        executions,
    }
}

// ------------------------------------------------------------------------------------------
// Pointer containment helpers (C01 oracle). Offsets only, never raw addresses, are reported.

/// Offset of `inner` inside `outer` if `inner` (non-empty or empty) lies within `outer`'s
/// address range, else None.
pub fn str_offset_in(outer: &str, inner: &str) -> Option<usize> {
    let o = outer.as_ptr() as usize;
    let i = inner.as_ptr() as usize;
    if i >= o && i + inner.len() <= o + outer.len() {
        Some(i - o)
    } else {
        None
    }
}

pub fn slice_offset_in<T>(outer: &[T], inner: &[T]) -> Option<usize> {
    let sz = std::mem::size_of::<T>();
    let o = outer.as_ptr() as usize;
    let i = inner.as_ptr() as usize;
    if sz == 0 {
        return if inner.len() <= outer.len() { Some(0) } else { None };
    }
    if i >= o && i + inner.len() * sz <= o + outer.len() * sz && (i - o) % sz == 0 {
        Some((i - o) / sz)
    } else {
        None
    }
}

#[derive(Serialize, Deserialize, Clone, Debug)]
pub struct ReplayFile {
    pub format: String,
    pub property: String,
    pub world: String,
    pub verif_seed: u64,
    pub run: u64,
    pub profile: String,
    pub case: serde_json::Value,
    pub violation: Violation,
    pub minimised: bool,
    pub original_steps: usize,
    pub minimise_executions: usize,
}

/// Display that is only formatted when a violation is actually reported (formatting every
/// operation eagerly dominates the cost of a run, above all under Miri).
pub struct Lazy<F: Fn() -> String>(pub F);
impl<F: Fn() -> String> std::fmt::Display for Lazy<F> {
    fn fmt(&self, f: &mut std::fmt::Formatter<'_>) -> std::fmt::Result {
        f.write_str(&(self.0)())
    }
}
