//! Drop/move ledger and instrumented token type for the by-value world (C15, C11, C01).
//! Everything lives in thread-locals of the single-threaded run.

use std::cell::RefCell;

pub const CANARY: u32 = 0xC0FF_EE11;

#[derive(Default)]
pub struct Ledger {
    pub drops: Vec<u32>,
    pub parent: Vec<Option<u32>>,
    pub invalid_drops: u32,
    pub payload_bad: u32,
    /// armed faults: fire at the n-th callback counted from now (1 = next)
    pub clone_cd: Option<u32>,
    pub drop_cd: Option<u32>,
    pub fired_clone: bool,
    pub fired_drop: bool,
    /// live count of the zero-sized token type
    pub zst_live: i64,
    pub zst_drops: u64,
}

thread_local! {
    pub static LEDGER: RefCell<Ledger> = RefCell::new(Ledger::default());
}

pub fn reset() {
    LEDGER.with(|l| *l.borrow_mut() = Ledger::default());
}
pub fn with<R>(f: impl FnOnce(&mut Ledger) -> R) -> R {
    LEDGER.with(|l| f(&mut l.borrow_mut()))
}
pub fn disarm() -> (bool, bool) {
    with(|l| {
        l.clone_cd = None;
        l.drop_cd = None;
        let r = (l.fired_clone, l.fired_drop);
        l.fired_clone = false;
        l.fired_drop = false;
        r
    })
}

pub fn payload_of(id: u32) -> [u8; 8] {
    ((id as u64 + 1).wrapping_mul(0x9E37_79B9_7F4A_7C15)).to_le_bytes()
}

/// Instrumented element: identity, liveness canary, payload that is a function of the id.
pub struct Tok {
    pub id: u32,
    pub canary: u32,
    pub payload: [u8; 8],
}

impl Tok {
    pub fn fresh() -> Tok {
        let id = with(|l| {
            l.drops.push(0);
            l.parent.push(None);
            (l.drops.len() - 1) as u32
        });
        Tok { id, canary: CANARY, payload: payload_of(id) }
    }
    /// bit-for-bit intact?
    pub fn intact(&self) -> bool {
        self.canary == CANARY && self.payload == payload_of(self.id)
    }
}

impl std::fmt::Debug for Tok {
    fn fmt(&self, f: &mut std::fmt::Formatter<'_>) -> std::fmt::Result {
        write!(f, "T{}", self.id)
    }
}

impl Clone for Tok {
    fn clone(&self) -> Tok {
        let fire = with(|l| match l.clone_cd {
            Some(1) => {
                l.clone_cd = None;
                l.fired_clone = true;
                true
            }
            Some(n) => {
                l.clone_cd = Some(n - 1);
                false
            }
            None => false,
        });
        if fire {
            panic!("ksim-injected: panic in Clone");
        }
        let parent = self.id;
        let id = with(|l| {
            l.drops.push(0);
            l.parent.push(Some(parent));
            (l.drops.len() - 1) as u32
        });
        Tok { id, canary: CANARY, payload: payload_of(id) }
    }
}

impl Drop for Tok {
    fn drop(&mut self) {
        let fire = with(|l| {
            if self.canary != CANARY || (self.id as usize) >= l.drops.len() {
                // a drop of memory that is not a live token: recorded, never indexed
                l.invalid_drops += 1;
                return false;
            }
            if self.payload != payload_of(self.id) {
                l.payload_bad += 1;
            }
            l.drops[self.id as usize] += 1;
            match l.drop_cd {
                Some(_) if std::thread::panicking() => false,
                Some(1) => {
                    l.drop_cd = None;
                    l.fired_drop = true;
                    true
                }
                Some(n) => {
                    l.drop_cd = Some(n - 1);
                    false
                }
                None => false,
            }
        });
        if fire {
            panic!("ksim-injected: panic in Drop");
        }
    }
}

/// Zero-sized element with Drop: only counts can be observed.
pub struct ZTok;
impl ZTok {
    pub fn fresh() -> ZTok {
        with(|l| l.zst_live += 1);
        ZTok
    }
}
impl Clone for ZTok {
    fn clone(&self) -> ZTok {
        ZTok::fresh()
    }
}
impl Drop for ZTok {
    fn drop(&mut self) {
        with(|l| {
            l.zst_live -= 1;
            l.zst_drops += 1;
        });
    }
}
